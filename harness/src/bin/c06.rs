//! C06 — a stream subscriber sees every frame exactly once, in order.
//!
//! The harness OWNS the schedule. A case fixes a stream kind (session / task / thread), a producer
//! (how many frames it emits) and the number of subscribers per producer run. For every attach
//! plan (g1, g2) — the producer step at which the SSE handler's `subscribe()` happens and the step
//! at which it takes its history snapshot — a FRESH stream is produced step by step:
//!
//!   session / task : steps  [bp_0, ap_0, bp_1, ap_1, …, bp_{n-1}, ap_{n-1}, end]
//!                    bp_k = parked at `emit.before_publish` of frame k (nothing of k visible),
//!                    ap_k = parked at `emit.after_publish` (k is on the channel, NOT in the buffer)
//!   thread         : steps  [lb_k, lf_k, cf_k]* + end   for every frame k appended while the
//!                    stream is observable: lb = `log.before_write`, lf = `log.after_flush`
//!                    (in the log, not in the sidecar), cf = `cache.full` (in the sidecar, not yet
//!                    broadcast)
//!
//! The subscriber's GET runs inside the real axum router; it is parked at `stream.after_subscribe`
//! from step g1 to step g2. After the producer finished everything is released and every
//! subscriber's SSE body is read up to the terminal frame. Verdicts are computed from the frames
//! received and the raw log, never from timing. The one exception — "the terminal frame itself
//! never arrived" — needs an idle timeout: the reader gives up only when the body was polled and
//! had nothing ready 2 s after the producer finished (so a starved reader cannot give up early),
//! and a control subscriber attached afterwards (history only, judged without a clock) decides
//! whether the stream delivers its terminal frame at all.
//!
//! The producer runs on a per-case tokio runtime whose threads carry a thread-local hook handler
//! (installed in `on_thread_start`); subscribers and hook-hitting requests run on OS threads of a
//! small pool that carry the same handler. No process-global handler is needed, so cases run on
//! several shards at once.

use std::collections::BTreeSet;
use std::io::Write as _;
use std::sync::mpsc;
use std::sync::{Arc, Condvar, Mutex};
use std::time::{Duration, Instant};

use axum::body::Body;
use axum::http::{Method, Request, StatusCode};
use axum::Router;
use futures_util::{FutureExt, StreamExt};
use proptest::prelude::*;
use rv::engine::findings::KnownFindings;
use rv::engine::{pick, CaseReport, Check, GroupOpts};
use rv::http::{call_json, sse_data_payloads};
use rv::store::Sandbox;
use serde::{Deserialize, Serialize};
use serde_json::{json, Value};
use tokio::sync::watch;
use tower::ServiceExt;

/// KNOWN FINDING (session + task emitters publish to the broadcast channel BEFORE they record into
/// the history buffer): a subscriber whose `subscribe()` AND history snapshot both happen while
/// the producer sits between publish and record of frame k never receives frame k.
/// `true`  = the generated search skips exactly those attach positions (g1 == g2 == ap_k) for
///           sessions and tasks and counts them (`excluded_known_publish_before_record`);
/// `false` = they are enumerated like every other pair (use this once the emitters are fixed).
/// Can be overridden at run time with the environment variable `C06_EXCLUDE_KNOWN=0|1`.
/// Pinned `Explicit` cases (replays/known, replays/regress) are never filtered.
const EXCLUDE_KNOWN_PUBLISH_BEFORE_RECORD: bool = false;

fn exclude_known() -> bool {
    match std::env::var("C06_EXCLUDE_KNOWN").ok().as_deref() {
        Some("0") | Some("false") => false,
        Some("1") | Some("true") => true,
        _ => EXCLUDE_KNOWN_PUBLISH_BEFORE_RECORD,
    }
}

/// complete enumeration of the (g1,g2) space up to this many frames; sampled above
const EXHAUSTIVE_MAX_FRAMES: usize = 8;
/// runtime workers; at most the producer (+ 2 noise tasks for threads, waiting for a store mutex the
/// parked producer holds) block a worker at any time — subscribers park pool threads, not workers
const WORKERS: usize = 10;
/// give-up budget for any single wait of the driver (⇒ inconclusive, never a verdict)
const STEP_TIMEOUT: Duration = Duration::from_secs(8);
/// idle time after the producer finished before a reader gives up on the terminal frame
const IDLE: Duration = Duration::from_secs(2);
/// how long the driver waits for a released subscriber to return its response before it decides
/// the snapshot is blocked on a lock held by the parked producer (only changes the schedule)
const SNAPSHOT_QUANTUM: Duration = Duration::from_millis(60);

fn trace_on() -> bool {
    static T: std::sync::OnceLock<bool> = std::sync::OnceLock::new();
    *T.get_or_init(|| std::env::var_os("C06_TRACE").is_some())
}

fn trace_t0() -> Instant {
    static T: std::sync::OnceLock<Instant> = std::sync::OnceLock::new();
    *T.get_or_init(Instant::now)
}

macro_rules! trace {
    ($($a:tt)*) => { if trace_on() { eprintln!("{:>9.3} {}", trace_t0().elapsed().as_secs_f64() * 1000.0, format!($($a)*)); } };
}

// ---------------------------------------------------------------------------------------------
// Case
// ---------------------------------------------------------------------------------------------

#[derive(Debug, Clone, Copy, Serialize, Deserialize, PartialEq, Eq)]
#[serde(rename_all = "snake_case")]
enum Kind {
    Session,
    Task,
    Thread,
}

impl Kind {
    fn as_str(self) -> &'static str {
        match self {
            Kind::Session => "session",
            Kind::Task => "task",
            Kind::Thread => "thread",
        }
    }
    /// `stream_kind` of the frames in the log
    fn wire(self) -> &'static str {
        match self {
            Kind::Session => "session",
            Kind::Task => "task",
            Kind::Thread => "continuity",
        }
    }
    /// producer steps per frame
    fn steps_per_frame(self) -> usize {
        match self {
            Kind::Session | Kind::Task => 2,
            Kind::Thread => 3,
        }
    }
}

#[derive(Debug, Clone, Serialize, Deserialize)]
#[serde(rename_all = "snake_case")]
enum Plan {
    /// calibrate the producer (free run, with the two degenerate attaches), then enumerate the
    /// complete (g1,g2) space when it emits <= 8 frames, else use `picks`:
    /// g1 = pick(a, steps); mode 0: g2 = g1, mode 1: g2 = g1+1, else g2 = g1 + pick(b, steps-g1)
    Auto { picks: Vec<(u16, u16, u8)> },
    /// exactly these producer runs, each with these (g1,g2) attach plans; never filtered.
    /// `degenerate`: first the free run with the before-start and after-end attaches.
    Explicit {
        runs: Vec<Vec<(u16, u16)>>,
        #[serde(default)]
        degenerate: bool,
    },
}

#[derive(Debug, Clone, Serialize, Deserialize)]
struct Case {
    kind: Kind,
    /// session: 0 stub prompt, 1 bash tool printing `size` lines, 2 write tool, 3 ls tool;
    /// task: 0 stdout chunks only, 1 plus one stderr chunk; thread: unused
    variant: u8,
    /// session/bash: stdout lines 0..=7; task: stdout chunks = 1 + size; thread: messages = 1 + size % 3
    size: u8,
    /// subscribers attached to one producer run (1..=3)
    subs: u8,
    /// thread only: another thread receives a message between the subject's messages
    noise: bool,
    plan: Plan,
}

fn case_strategy() -> BoxedStrategy<Case> {
    let kind = prop_oneof![4 => Just(Kind::Session), 3 => Just(Kind::Task), 3 => Just(Kind::Thread)];
    (
        kind,
        0u8..4,
        0u8..8,
        1u8..=3,
        any::<bool>(),
        proptest::collection::vec((any::<u16>(), any::<u16>(), 0u8..4), 40),
    )
        .prop_map(|(kind, variant, size, subs, noise, picks)| {
            let (variant, size) = match kind {
                // stub prompt (3 frames) 1/4, bash tool 1/2 (5 + size frames), write (7), ls (5)
                Kind::Session => (if variant == 3 && size % 2 == 0 { 1 } else { variant }, size),
                // 3 + chunks (+1) frames; a third of the tasks are the smallest one (4 frames)
                Kind::Task => (if size % 3 == 0 { 0 } else { variant % 2 }, if size % 3 == 0 { 0 } else { size % 7 }),
                Kind::Thread => (0, size % 3),
            };
            Case { kind, variant, size, subs, noise: noise && kind == Kind::Thread, plan: Plan::Auto { picks } }
        })
        .boxed()
}

// ---------------------------------------------------------------------------------------------
// Stepper: the hook handler installed on every runtime thread of the case
// ---------------------------------------------------------------------------------------------

#[derive(Default)]
struct Slot {
    parked: Option<(String, String)>,
    tokens: u32,
}

struct StState {
    free: bool,
    prod_points: Vec<&'static str>,
    /// a producer point belongs to the producer when its ctx starts with one of these
    prod_prefixes: Vec<String>,
    sub_ctx: String,
    prod: Slot,
    subs: Vec<Slot>,
    /// which subscriber slot the next `stream.after_subscribe` arrival belongs to (the driver
    /// starts planned subscribers one at a time); None = pass through
    next_sub: Option<usize>,
    /// task producers: the command prints chunk j+1 only after a newline arrives on this FIFO;
    /// one is written at `emit.before_publish` of every frame with seq >= 2, i.e. once the
    /// previous chunk has been read by the output pump — this makes the number of output frames
    /// independent of the schedule
    fifo: Option<std::fs::File>,
    arrivals: u64,
    overtakes: u64,
    /// the producer runs freely, subscribers are still steered
    prod_free: bool,
}

struct Stepper {
    st: Mutex<StState>,
    cv: Condvar,
}

enum ProdWait {
    Parked(String, String),
    Finished,
    Timeout,
}

struct StepperCfg {
    free: bool,
    prod_points: Vec<&'static str>,
    prod_prefixes: Vec<String>,
    sub_ctx: String,
    n_subs: usize,
    fifo: Option<std::fs::File>,
}

impl Stepper {
    fn new() -> Arc<Stepper> {
        Arc::new(Stepper {
            st: Mutex::new(StState {
                free: true,
                prod_points: Vec::new(),
                prod_prefixes: Vec::new(),
                sub_ctx: String::new(),
                prod: Slot::default(),
                subs: Vec::new(),
                next_sub: None,
                fifo: None,
                arrivals: 0,
                overtakes: 0,
                prod_free: false,
            }),
            cv: Condvar::new(),
        })
    }

    fn lock(&self) -> std::sync::MutexGuard<'_, StState> {
        self.st.lock().unwrap_or_else(|e| e.into_inner())
    }

    fn configure(&self, cfg: StepperCfg) {
        let mut g = self.lock();
        g.free = cfg.free;
        g.prod_points = cfg.prod_points;
        g.prod_prefixes = cfg.prod_prefixes;
        g.sub_ctx = cfg.sub_ctx;
        g.prod = Slot::default();
        g.subs = (0..cfg.n_subs).map(|_| Slot::default()).collect();
        g.next_sub = None;
        g.fifo = cfg.fifo;
        g.arrivals = 0;
        g.overtakes = 0;
        g.prod_free = false;
        self.cv.notify_all();
    }

    fn set_stream(&self, prefixes: Vec<String>, sub_ctx: String) {
        let mut g = self.lock();
        g.prod_prefixes = prefixes;
        g.sub_ctx = sub_ctx;
    }

    /// the hook callback
    fn on_point(&self, point: &str, ctx: &str) {
        let mut g = self.lock();
        let is_prod = g.prod_points.iter().any(|p| *p == point)
            && g.prod_prefixes.iter().any(|p| ctx.starts_with(p.as_str()));
        if is_prod {
            if point == "emit.before_publish" {
                let seq = ctx.rsplit(':').next().and_then(|s| s.parse::<u64>().ok()).unwrap_or(0);
                if seq >= 2 {
                    if let Some(f) = g.fifo.as_mut() {
                        let _ = f.write_all(b"\n");
                    }
                }
            }
            g.arrivals += 1;
            if g.free || g.prod_free {
                return;
            }
            if g.prod.parked.is_some() {
                // Two emissions of one stream in flight at once. The emitters serialise whole
                // emissions (one task per session, the seq lock of a task, the seq mutex of the
                // store), so this never happens on the unchanged tree; if it does, the later
                // emission is allowed to overtake the parked one (the adversarial schedule).
                g.overtakes += 1;
                return;
            }
            g.prod.parked = Some((point.to_string(), ctx.to_string()));
            self.cv.notify_all();
            while g.prod.tokens == 0 && !g.free && !g.prod_free {
                g = self.cv.wait(g).unwrap_or_else(|e| e.into_inner());
            }
            if g.prod.tokens > 0 {
                g.prod.tokens -= 1;
            }
            g.prod.parked = None;
            self.cv.notify_all();
        } else if point == "stream.after_subscribe" && ctx == g.sub_ctx {
            if g.free {
                return;
            }
            let Some(i) = g.next_sub.take() else { return };
            if i >= g.subs.len() {
                return;
            }
            g.subs[i].parked = Some((point.to_string(), ctx.to_string()));
            self.cv.notify_all();
            while g.subs[i].tokens == 0 && !g.free {
                g = self.cv.wait(g).unwrap_or_else(|e| e.into_inner());
            }
            if g.subs[i].tokens > 0 {
                g.subs[i].tokens -= 1;
            }
            g.subs[i].parked = None;
            self.cv.notify_all();
        }
    }

    fn wait_prod(&self, timeout: Duration, finished: &mut dyn FnMut() -> bool) -> ProdWait {
        let t0 = Instant::now();
        let mut g = self.lock();
        loop {
            if g.prod.tokens == 0 {
                if let Some((p, c)) = &g.prod.parked {
                    return ProdWait::Parked(p.clone(), c.clone());
                }
            }
            drop(g);
            if finished() {
                // a producer that is parked has not finished; re-check under the lock
                let g2 = self.lock();
                if g2.prod.parked.is_none() {
                    return ProdWait::Finished;
                }
                drop(g2);
            }
            if t0.elapsed() > timeout {
                return ProdWait::Timeout;
            }
            g = self.lock();
            if g.prod.tokens == 0 && g.prod.parked.is_some() {
                continue;
            }
            let (ng, _) = self
                .cv
                .wait_timeout(g, Duration::from_micros(400))
                .unwrap_or_else(|e| e.into_inner());
            g = ng;
        }
    }

    fn release_prod(&self) {
        let mut g = self.lock();
        g.prod.tokens += 1;
        self.cv.notify_all();
    }

    fn set_next_sub(&self, i: usize) {
        self.lock().next_sub = Some(i);
    }

    fn wait_sub_parked(&self, i: usize, timeout: Duration) -> bool {
        let t0 = Instant::now();
        let mut g = self.lock();
        loop {
            if g.subs[i].parked.is_some() && g.subs[i].tokens == 0 {
                return true;
            }
            let Some(left) = timeout.checked_sub(t0.elapsed()) else { return false };
            let (ng, _) = self
                .cv
                .wait_timeout(g, left.min(Duration::from_millis(5)))
                .unwrap_or_else(|e| e.into_inner());
            g = ng;
        }
    }

    fn release_sub(&self, i: usize) {
        let mut g = self.lock();
        g.subs[i].tokens += 1;
        self.cv.notify_all();
    }

    fn free_producer(&self) {
        let mut g = self.lock();
        g.prod_free = true;
        self.cv.notify_all();
    }

    fn free_all(&self) {
        let mut g = self.lock();
        g.free = true;
        g.next_sub = None;
        self.cv.notify_all();
    }

    fn arrivals(&self) -> u64 {
        self.lock().arrivals
    }

    fn overtakes(&self) -> u64 {
        self.lock().overtakes
    }
}

struct FreeOnDrop(Arc<Stepper>);
impl Drop for FreeOnDrop {
    fn drop(&mut self) {
        self.0.free_all();
    }
}

// ---------------------------------------------------------------------------------------------
// Subscriber task
// ---------------------------------------------------------------------------------------------

#[derive(Debug, Clone, Default)]
struct SubOutcome {
    status: u16,
    /// every complete `data:` payload in arrival order (keep-alive comments ignored)
    payloads: Vec<String>,
    got_terminal: bool,
    gave_up: bool,
    body_ended: bool,
    aborted: bool,
}

struct Absorb {
    text: String,
    consumed: usize,
    payloads: Vec<String>,
    seqs: BTreeSet<u64>,
}

impl Absorb {
    fn push(&mut self, chunk: &[u8]) {
        self.text.push_str(&String::from_utf8_lossy(chunk));
        while let Some(i) = self.text[self.consumed..].find("\n\n") {
            let end = self.consumed + i + 2;
            let block = self.text[self.consumed..end].to_string();
            for p in sse_data_payloads(&block) {
                if let Ok(v) = serde_json::from_str::<Value>(&p) {
                    if let Some(s) = v.get("seq").and_then(|s| s.as_u64()) {
                        self.seqs.insert(s);
                    }
                }
                self.payloads.push(p);
            }
            self.consumed = end;
        }
    }
}

/// GET `path` through the router (the handler runs inline in this task and may be parked inside
/// `stream.after_subscribe`), report the response status, then read the SSE body until the frame
/// whose seq equals the terminal seq (announced by the driver once the producer finished).
async fn subscriber(
    router: Router,
    path: String,
    hdr_tx: mpsc::Sender<u16>,
    mut term: watch::Receiver<Option<u64>>,
    ready_only: bool,
) -> SubOutcome {
    let mut out = SubOutcome::default();
    trace!("   sub future polled");
    let req = Request::builder().method(Method::GET).uri(&path).body(Body::empty()).expect("request");
    let resp = match router.oneshot(req).await {
        Ok(r) => r,
        Err(_) => {
            out.aborted = true;
            return out;
        }
    };
    out.status = resp.status().as_u16();
    let _ = hdr_tx.send(out.status);
    if resp.status() != StatusCode::OK {
        return out;
    }
    let mut stream = resp.into_body().into_data_stream();
    let mut ab = Absorb { text: String::new(), consumed: 0, payloads: Vec::new(), seqs: BTreeSet::new() };
    if ready_only {
        // Control subscriber, attached after the producer finished: everything it will ever get
        // is history, and history is ready without waiting. No clock involved.
        while let Some(Some(Ok(chunk))) = stream.next().now_or_never() {
            ab.push(&chunk);
        }
        out.got_terminal = (*term.borrow()).map(|n| ab.seqs.contains(&n)).unwrap_or(false);
        out.payloads = ab.payloads;
        return out;
    }
    let mut term_known: Option<u64> = *term.borrow();
    let mut mark = Instant::now();
    let born = Instant::now();
    loop {
        if let Some(n) = term_known {
            if ab.seqs.contains(&n) {
                out.got_terminal = true;
                break;
            }
        }
        tokio::select! {
            biased;
            item = stream.next() => match item {
                Some(Ok(chunk)) => { ab.push(&chunk); mark = Instant::now(); }
                _ => { out.body_ended = true; break; }
            },
            r = term.changed(), if term_known.is_none() => {
                if r.is_err() { out.aborted = true; break; }
                term_known = *term.borrow();
                mark = Instant::now();
            }
            _ = tokio::time::sleep(Duration::from_millis(50)) => {
                if term_known.is_some() && mark.elapsed() > IDLE { out.gave_up = true; break; }
                if term_known.is_none() && born.elapsed() > Duration::from_secs(120) { out.aborted = true; break; }
            }
        }
    }
    if out.got_terminal {
        // The producer has finished (the terminal seq is only announced afterwards), so whatever
        // else this subscriber will ever be sent is already queued: drain what is ready now.
        // Anything that shows up here is a frame after the terminal one (duplicate / reordered).
        while let Some(Some(Ok(chunk))) = stream.next().now_or_never() {
            ab.push(&chunk);
        }
    }
    out.payloads = ab.payloads;
    out
}

/// A subscriber runs on its OWN OS thread (`Handle::block_on`), never on a runtime worker: a task
/// injected from outside and then parked inside a hook can strand whatever sits in that worker's
/// (unstealable) LIFO slot — e.g. the task just woken by the I/O driver — for as long as it is parked.
struct SubHandle {
    hdr_rx: mpsc::Receiver<u16>,
    done_rx: mpsc::Receiver<SubOutcome>,
}

type Hook = Arc<dyn Fn(&str, &str) + Send + Sync>;
type Job = Box<dyn FnOnce() + Send>;

/// OS threads (outside the runtime) that carry the case's hook handler; they run subscribers and
/// hook-hitting requests. A job that finds every thread busy gets a new thread.
struct Pool {
    tx: mpsc::Sender<Job>,
    idle: Arc<std::sync::atomic::AtomicUsize>,
    rx: Arc<Mutex<mpsc::Receiver<Job>>>,
    hook: Hook,
}

impl Pool {
    fn new(n: usize, hook: Hook) -> Pool {
        let (tx, rx) = mpsc::channel::<Job>();
        let pool = Pool { tx, idle: Arc::new(std::sync::atomic::AtomicUsize::new(0)), rx: Arc::new(Mutex::new(rx)), hook };
        for _ in 0..n {
            pool.add_thread();
        }
        pool
    }

    fn add_thread(&self) {
        use std::sync::atomic::Ordering;
        let rx = self.rx.clone();
        let idle = self.idle.clone();
        let hook = self.hook.clone();
        idle.fetch_add(1, Ordering::SeqCst);
        let _ = std::thread::Builder::new().name("c06-pool".into()).stack_size(512 * 1024).spawn(move || {
            rv::sched::set_thread_handler(Some(hook));
            loop {
                let job = {
                    let g = rx.lock().unwrap_or_else(|e| e.into_inner());
                    g.recv()
                };
                let Ok(job) = job else { break };
                job();
                idle.fetch_add(1, Ordering::SeqCst);
            }
        });
    }

    fn run(&self, job: Job) {
        use std::sync::atomic::Ordering;
        // reserve an idle thread, or make one
        loop {
            let cur = self.idle.load(Ordering::SeqCst);
            if cur == 0 {
                self.add_thread();
                continue;
            }
            if self.idle.compare_exchange(cur, cur - 1, Ordering::SeqCst, Ordering::SeqCst).is_ok() {
                break;
            }
        }
        let _ = self.tx.send(job);
    }
}
type CallHandle = mpsc::Receiver<(StatusCode, Value)>;

// ---------------------------------------------------------------------------------------------
// Environment of one case: sandbox + router + runtime + stepper
// ---------------------------------------------------------------------------------------------

struct Env {
    sandbox: Sandbox,
    router: Router,
    rt: tokio::runtime::Runtime,
    stepper: Arc<Stepper>,
    pool: Pool,
    root_thread: Option<String>,
    /// producer points at which a released subscriber did not return (snapshot blocked on a lock
    /// held by the parked producer): the driver does not wait there again in this case
    blocked_points: std::collections::BTreeMap<String, u32>,
    serial: u32,
}

impl Env {
    fn new() -> Env {
        let stepper = Stepper::new();
        let h = stepper.clone();
        let handler: Hook = Arc::new(move |p: &str, c: &str| h.on_point(p, c));
        let hook = handler.clone();
        let rt = tokio::runtime::Builder::new_multi_thread()
            .worker_threads(WORKERS)
            .enable_all()
            .on_thread_start(move || rv::sched::set_thread_handler(Some(handler.clone())))
            .build()
            .expect("tokio runtime");
        let sandbox = Sandbox::new("c06");
        let router = {
            let _g = rt.enter();
            ripd::verif::build_router(sandbox.data.clone(), sandbox.ws.clone(), None, false)
        };
        Env { sandbox, router, rt, stepper, pool: Pool::new(6, hook), root_thread: None, blocked_points: Default::default(), serial: 0 }
    }

    /// request executed on the driver thread (no hook handler there: passes every point)
    fn call(&self, method: Method, path: &str, body: Option<Value>) -> (StatusCode, Value) {
        self.rt.block_on(call_json(&self.router, method, path, body))
    }

    /// request executed on a pool thread whose hook points are subject to the stepper
    fn spawn_call(&self, method: Method, path: String, body: Option<Value>) -> CallHandle {
        let router = self.router.clone();
        let handle = self.rt.handle().clone();
        let (tx, rx) = mpsc::channel();
        self.pool.run(Box::new(move || {
            let r = handle.block_on(call_json(&router, method, &path, body));
            let _ = tx.send(r);
        }));
        rx
    }

    fn spawn_sub(&self, path: &str, term: watch::Receiver<Option<u64>>) -> SubHandle {
        self.spawn_sub_mode(path, term, false)
    }

    fn spawn_sub_mode(&self, path: &str, term: watch::Receiver<Option<u64>>, ready_only: bool) -> SubHandle {
        let (hdr_tx, hdr_rx) = mpsc::channel();
        let (done_tx, done_rx) = mpsc::channel();
        let router = self.router.clone();
        let handle = self.rt.handle().clone();
        let path = path.to_string();
        self.pool.run(Box::new(move || {
            let o = handle.block_on(subscriber(router, path, hdr_tx, term, ready_only));
            let _ = done_tx.send(o);
        }));
        SubHandle { hdr_rx, done_rx }
    }

    fn join_sub(&self, h: SubHandle) -> SubOutcome {
        match h.done_rx.recv_timeout(IDLE + STEP_TIMEOUT) {
            Ok(o) => o,
            Err(_) => SubOutcome { aborted: true, ..Default::default() },
        }
    }

    fn log_len(&self) -> usize {
        std::fs::metadata(self.sandbox.log_path()).map(|m| m.len() as usize).unwrap_or(0)
    }

    /// frames of one stream appended to the raw log at or after byte offset `from`
    fn truth_since(&self, from: usize, kind: Kind, id: &str) -> Result<Vec<Value>, String> {
        let bytes = self.sandbox.log_bytes();
        let tail = if from <= bytes.len() { &bytes[from..] } else { &bytes[..] };
        // A concurrent writer (the run of a noise message) may be in the middle of a line both
        // when `from` was taken and now: the window may start with the rest of a line that is not
        // ours (the stream did not exist yet) and end with an unfinished one.
        let cut = tail.iter().rposition(|b| *b == b'\n').map(|i| i + 1).unwrap_or(0);
        let mut out = Vec::new();
        for (i, line) in tail[..cut].split(|b| *b == b'\n').enumerate() {
            if line.is_empty() {
                continue;
            }
            match serde_json::from_slice::<Value>(line) {
                Ok(v) => {
                    if v["stream_kind"] == kind.wire() && v["stream_id"] == id {
                        out.push(v);
                    }
                }
                Err(_) if i == 0 => {}
                Err(e) => return Err(format!("line {i}: {e}")),
            }
        }
        Ok(out)
    }
}

impl Env {
    /// stop the runtime without waiting for idle SSE bodies / unfinished noise runs
    fn shutdown(self) {
        self.stepper.free_all();
        let Env { rt, router, sandbox, .. } = self;
        drop(router);
        rt.shutdown_timeout(Duration::from_millis(300));
        drop(sandbox);
    }
}

// ---------------------------------------------------------------------------------------------
// Producers
// ---------------------------------------------------------------------------------------------

fn session_input(case: &Case) -> String {
    match case.variant {
        0 => "hello there".to_string(),
        1 => {
            let mut cmd = String::from("true");
            if case.size > 0 {
                cmd = String::from("printf '");
                for i in 0..case.size {
                    cmd.push_str(&format!("line{i}\\n"));
                }
                cmd.push('\'');
            }
            json!({"tool": "bash", "args": {"command": cmd}}).to_string()
        }
        2 => json!({"tool": "write", "args": {"path": "c06.txt", "content": "hi"}}).to_string(),
        _ => json!({"tool": "ls", "args": {"path": "."}}).to_string(),
    }
}

fn task_command(case: &Case, fifo: &std::path::Path) -> String {
    let chunks = 1 + case.size as usize;
    let mut cmd = format!("exec 3<>'{}'; printf 'c0\\n'", fifo.display());
    for j in 1..chunks {
        cmd.push_str(&format!("; read -u 3 x; printf 'c{j}\\n'"));
    }
    if case.variant == 1 {
        cmd.push_str("; printf 'e\\n' >&2");
    }
    cmd
}

fn thread_messages(case: &Case) -> usize {
    1 + (case.size as usize % 3)
}

fn is_terminal_frame(kind: Kind, v: &Value) -> bool {
    match kind {
        Kind::Session => v["type"] == "session_ended",
        Kind::Task => {
            v["type"] == "tool_task_status"
                && matches!(v["status"].as_str(), Some("exited") | Some("failed") | Some("cancelled"))
        }
        Kind::Thread => true,
    }
}

// ---------------------------------------------------------------------------------------------
// One producer run
// ---------------------------------------------------------------------------------------------

#[derive(Debug, Clone, Default)]
struct RunPlan {
    attaches: Vec<(usize, usize)>,
    before_start: bool,
    after_end: bool,
    free: bool,
}

#[derive(Debug, Clone)]
struct Attach {
    /// "plan" | "before_start" | "after_end" | "control"
    what: &'static str,
    planned: Option<(usize, usize)>,
    /// producer position (index into the step sequence; == end_pos when the producer had finished)
    a1: usize,
    a2: usize,
    p1: String,
    p2: String,
    /// the snapshot did not complete while the producer was parked at a2 (blocked on a lock)
    deferred: bool,
    outcome: SubOutcome,
}

struct RunResult {
    stream_id: String,
    truth: Vec<Value>,
    end_pos: usize,
    attaches: Vec<Attach>,
    path: String,
    overtakes: u64,
    /// the driver stopped steering (concurrent emissions arrived out of sequence)
    degraded: bool,
}

/// position in the producer's step sequence of a hook arrival
fn position_of(kind: Kind, point: &str, seq: u64, first_seq: u64) -> Option<usize> {
    let f = seq.checked_sub(first_seq)? as usize;
    let (per, off) = match (kind, point) {
        (Kind::Session | Kind::Task, "emit.before_publish") => (2, 0),
        (Kind::Session | Kind::Task, "emit.after_publish") => (2, 1),
        (Kind::Thread, "log.before_write") => (3, 0),
        (Kind::Thread, "log.after_flush") => (3, 1),
        (Kind::Thread, "cache.full") => (3, 2),
        _ => return None,
    };
    Some(f * per + off)
}

fn point_short(kind: Kind, pos: usize, end_pos: Option<usize>) -> String {
    if Some(pos) == end_pos {
        return "end".to_string();
    }
    match kind {
        Kind::Session | Kind::Task => format!("{}{}", if pos % 2 == 0 { "bp" } else { "ap" }, pos / 2),
        Kind::Thread => format!("{}+{}", ["lb", "lf", "cf"][pos % 3], pos / 3),
    }
}

/// strictly inside an emission?
fn inside_emission(kind: Kind, pos: usize, end_pos: usize) -> bool {
    pos < end_pos
        && match kind {
            Kind::Session | Kind::Task => pos % 2 == 1,
            Kind::Thread => pos % 3 != 0,
        }
}

fn run_once(env: &mut Env, case: &Case, plan: &RunPlan) -> Result<RunResult, String> {
    let kind = case.kind;
    trace!("[run_once enter]");
    let st = env.stepper.clone();
    let _guard = FreeOnDrop(st.clone());
    let (term_tx, term_rx) = watch::channel(None::<u64>);
    env.serial += 1;
    let log_from = env.log_len();

    // ---- 1. create the stream (sessions, threads) / start the producer (tasks)
    let stream_id: String;
    let path: String;
    let first_seq: u64; // seq of the first frame produced under the stepper
    let mut finished_file: Option<std::path::PathBuf> = None;
    match kind {
        Kind::Session => {
            let (s, v) = env.call(Method::POST, "/sessions", None);
            trace!(" session created");
            let sid = v["session_id"].as_str().ok_or(format!("create_session_failed:{s}"))?.to_string();
            st.configure(StepperCfg {
                free: plan.free,
                prod_points: vec!["emit.before_publish", "emit.after_publish"],
                prod_prefixes: vec![format!("{sid}:")],
                sub_ctx: sid.clone(),
                n_subs: plan.attaches.len(),
                fifo: None,
            });
            finished_file = Some(env.sandbox.data.join("snapshots").join(format!("{sid}.json")));
            path = format!("/sessions/{sid}/events");
            stream_id = sid;
            first_seq = 0;
        }
        Kind::Task => {
            let fifo_path = env.sandbox.root.join(format!("go-{}", env.serial));
            let c = std::ffi::CString::new(fifo_path.to_string_lossy().as_bytes()).map_err(|_| "fifo_path".to_string())?;
            // SAFETY: plain libc call with a valid NUL-terminated path
            let rc = unsafe { libc::mkfifo(c.as_ptr(), 0o600) };
            if rc != 0 {
                return Err("mkfifo_failed".into());
            }
            let fifo = std::fs::OpenOptions::new().read(true).write(true).open(&fifo_path).map_err(|_| "fifo_open".to_string())?;
            // the task id is not known before POST /tasks returns, and the producer starts inside
            // that request: any emit.* point belongs to the producer (no other emitter is alive)
            st.configure(StepperCfg {
                free: plan.free,
                prod_points: vec!["emit.before_publish", "emit.after_publish"],
                prod_prefixes: vec![String::new()],
                sub_ctx: "\u{0}unknown".to_string(),
                n_subs: plan.attaches.len(),
                fifo: Some(fifo),
            });
            let cmd = task_command(case, &fifo_path);
            let (s, v) = env.call(Method::POST, "/tasks", Some(json!({"tool": "bash", "args": {"command": cmd}})));
            let tid = v["task_id"].as_str().ok_or(format!("create_task_failed:{s}"))?.to_string();
            st.set_stream(vec![format!("{tid}:")], tid.clone());
            finished_file = Some(env.sandbox.data.join("task_snapshots").join(format!("{tid}.json")));
            path = format!("/tasks/{tid}/events");
            stream_id = tid;
            first_seq = 0;
        }
        Kind::Thread => {
            // every run gets a fresh thread: a branch of the workspace's default thread (frames
            // 0 = continuity_created and 1 = continuity_branched exist before the id is known)
            st.configure(StepperCfg {
                free: true,
                prod_points: vec![],
                prod_prefixes: vec![],
                sub_ctx: String::new(),
                n_subs: 0,
                fifo: None,
            });
            if env.root_thread.is_none() {
                let (s, v) = env.call(Method::POST, "/threads/ensure", None);
                env.root_thread = Some(v["thread_id"].as_str().ok_or(format!("ensure_failed:{s}"))?.to_string());
            }
            let root = env.root_thread.clone().unwrap();
            let (s, v) = env.call(Method::POST, &format!("/threads/{root}/branch"), Some(json!({"title": "c06"})));
            let tid = v["thread_id"].as_str().ok_or(format!("branch_failed:{s}"))?.to_string();
            st.configure(StepperCfg {
                free: plan.free,
                prod_points: vec!["log.before_write", "log.after_flush", "cache.full"],
                prod_prefixes: vec![format!("continuity:{tid}:"), format!("{tid}:")],
                sub_ctx: tid.clone(),
                n_subs: plan.attaches.len(),
                fifo: None,
            });
            path = format!("/threads/{tid}/events");
            stream_id = tid;
            first_seq = 2;
        }
    }
    trace!("[run] kind={} stream={} plan={:?}", kind.as_str(), stream_id, plan);

    let mut extra: Vec<(&'static str, SubHandle, usize)> = Vec::new(); // degenerate subscribers
    let wait_hdr = |h: &SubHandle, t: Duration| -> Option<u16> { h.hdr_rx.recv_timeout(t).ok() };

    // ---- 2. degenerate attach: before the stream starts (not possible for tasks: 404 before POST /tasks)
    if plan.before_start && kind != Kind::Task {
        let h = env.spawn_sub(&path, term_rx.clone());
        if wait_hdr(&h, STEP_TIMEOUT).is_none() {
            return Err("before_start_subscriber_no_response".into());
        }
        extra.push(("before_start", h, 0));
    }

    // ---- 3. start the producer
    let m = thread_messages(case);
    let mut posts: Vec<CallHandle> = Vec::new();
    let mut posted = 0usize;
    let post_msg = |env: &Env, i: usize| -> CallHandle {
        env.spawn_call(
            Method::POST,
            format!("/threads/{stream_id}/messages"),
            Some(json!({"content": format!("message {i}"), "actor_id": "user", "origin": "c06"})),
        )
    };
    let post_noise = |env: &Env, i: usize| {
        if let Some(root) = &env.root_thread {
            let _ = env.call(
                Method::POST,
                &format!("/threads/{root}/messages"),
                Some(json!({"content": format!("noise {i}"), "actor_id": "user", "origin": "c06"})),
            );
        }
    };
    match kind {
        Kind::Session => {
            let (s, _) = env.call(
                Method::POST,
                &format!("/sessions/{stream_id}/input"),
                Some(json!({"input": session_input(case)})),
            );
            if s != StatusCode::ACCEPTED {
                return Err(format!("send_input_status_{}", s.as_u16()));
            }
        }
        Kind::Task => {}
        Kind::Thread => {
            if case.noise {
                post_noise(env, 0);
            }
            posts.push(post_msg(env, 0));
            posted = 1;
        }
    }
    let thread_total_steps = 3 * 3 * m; // 3 frames per message, 3 steps per frame

    // ---- 4. drive the producer
    let n_plans = plan.attaches.len();
    let mut subs: Vec<Option<SubHandle>> = (0..n_plans).map(|_| None).collect();
    let mut started = vec![false; n_plans];
    let mut released = vec![false; n_plans];
    let mut meta: Vec<(usize, usize, String, String, bool)> =
        (0..n_plans).map(|_| (0, 0, String::new(), String::new(), false)).collect();
    let mut finished_fn = || finished_file.as_ref().map(|p| p.exists()).unwrap_or(false);
    let mut pos = 0usize;
    let end_pos: usize;
    let mut degraded = false;

    // subscriber actions with the producer standing at `pos` (`at_end`: it has finished)
    let mut sub_actions = |env: &mut Env,
                           pos: usize,
                           at_end: bool,
                           point_name: &str,
                           subs: &mut Vec<Option<SubHandle>>|
     -> Result<(), String> {
        for i in 0..n_plans {
            let (g1, g2) = plan.attaches[i];
            if !started[i] && (g1 <= pos || at_end) {
                st.set_next_sub(i);
                subs[i] = Some(env.spawn_sub(&path, term_rx.clone()));
                if !st.wait_sub_parked(i, STEP_TIMEOUT) {
                    return Err("subscriber_did_not_reach_after_subscribe".into());
                }
                started[i] = true;
                meta[i].0 = pos;
                meta[i].2 = point_name.to_string();
                trace!("  sub{i} subscribed at {point_name}");
            }
            if started[i] && !released[i] && (g2 <= pos || at_end) {
                st.release_sub(i);
                released[i] = true;
                meta[i].1 = pos;
                meta[i].3 = point_name.to_string();
                let key = point_name.trim_end_matches(char::is_numeric).to_string();
                // three timeouts in a row at one kind of point: it is a lock, stop waiting there
                let known_blocked = !at_end && env.blocked_points.get(&key).copied().unwrap_or(0) >= 3;
                let q = if at_end { STEP_TIMEOUT } else if known_blocked { Duration::ZERO } else { SNAPSHOT_QUANTUM };
                let h = subs[i].as_ref().unwrap();
                match h.hdr_rx.recv_timeout(q) {
                    Ok(_) => {
                        env.blocked_points.remove(&key);
                    }
                    Err(_) => {
                        if at_end {
                            return Err("subscriber_no_response_after_end".into());
                        }
                        meta[i].4 = true;
                        *env.blocked_points.entry(key).or_insert(0) += 1;
                    }
                }
                trace!("  sub{i} snapshot at {point_name} deferred={}", meta[i].4);
            }
        }
        Ok(())
    };

    if plan.free {
        match kind {
            Kind::Session | Kind::Task => {
                let t0 = Instant::now();
                while !finished_fn() {
                    if t0.elapsed() > STEP_TIMEOUT {
                        return Err("producer_did_not_finish_free_run".into());
                    }
                    std::thread::sleep(Duration::from_micros(300));
                }
                end_pos = 2 * (st.arrivals() as usize / 2);
            }
            Kind::Thread => {
                for i in 0..m {
                    if i > 0 {
                        if case.noise {
                            post_noise(env, i);
                        }
                        posts.push(post_msg(env, i));
                    }
                    let want = 2 + 3 * (i + 1);
                    let t0 = Instant::now();
                    loop {
                        let have = env.truth_since(log_from, kind, &stream_id).map(|t| t.len()).unwrap_or(0);
                        if have >= want {
                            break;
                        }
                        if t0.elapsed() > STEP_TIMEOUT {
                            return Err("thread_run_did_not_end_free_run".into());
                        }
                        std::thread::sleep(Duration::from_millis(1));
                    }
                }
                std::thread::sleep(Duration::from_millis(1));
                if case.noise {
                    post_noise(env, m);
                }
                end_pos = thread_total_steps;
            }
        }
    } else {
        loop {
            let state = if kind == Kind::Thread && pos >= thread_total_steps {
                // the last frame's sidecar append has been released; what is left is the
                // broadcast send a few instructions later (no hook after it): give it a moment.
                // Either order is a legal "after the end" attach.
                std::thread::sleep(Duration::from_millis(1));
                ProdWait::Finished
            } else {
                st.wait_prod(STEP_TIMEOUT, &mut finished_fn)
            };
            match state {
                ProdWait::Parked(point, ctx) => {
                    // On the unchanged tree the arrivals are exactly pos, pos+1, …; positions
                    // may only be skipped when an emission overtook a parked one (see on_point).
                    let seq = ctx.rsplit(':').next().and_then(|s| s.parse::<u64>().ok()).unwrap_or(u64::MAX);
                    let at = position_of(kind, &point, seq, first_seq);
                    match at {
                        Some(at) if at >= pos => pos = at,
                        _ if kind != Kind::Thread => {
                            // Emissions are running concurrently and the overtaken one shows up
                            // late (never on the unchanged tree): stop steering, let the producer
                            // finish on its own and judge what the subscribers received.
                            trace!(" prod arrived out of sequence at {point} {ctx}: free run from here");
                            degraded = true;
                            st.free_producer();
                            let t0 = Instant::now();
                            while !finished_fn() {
                                if t0.elapsed() > STEP_TIMEOUT {
                                    return Err("producer_did_not_finish_after_overtake".into());
                                }
                                std::thread::sleep(Duration::from_micros(300));
                            }
                            end_pos = pos;
                            sub_actions(env, pos, true, "end", &mut subs)?;
                            break;
                        }
                        _ => return Err(format!("unexpected_hook_sequence:{point}")),
                    }
                    let name = point_short(kind, pos, None);
                    trace!(" prod at {name} ({point} {ctx})");
                    sub_actions(env, pos, false, &name, &mut subs)?;
                    st.release_prod();
                    pos += 1;
                    if kind == Kind::Thread && pos % 9 == 0 && posted < m {
                        // all three frames of the previous message have been released
                        if case.noise {
                            post_noise(env, posted);
                        }
                        posts.push(post_msg(env, posted));
                        posted += 1;
                    }
                }
                ProdWait::Finished => {
                    if kind == Kind::Thread && case.noise {
                        // every subscriber attached so far is live: it must drop these frames
                        post_noise(env, m);
                    }
                    end_pos = pos;
                    trace!(" prod finished at pos {pos}");
                    sub_actions(env, pos, true, "end", &mut subs)?;
                    break;
                }
                ProdWait::Timeout => return Err("producer_did_not_reach_next_point".into()),
            }
        }
    }
    st.free_all();

    // ---- 5. degenerate attach: after the stream ended
    if plan.after_end {
        let h = env.spawn_sub(&path, term_rx.clone());
        if wait_hdr(&h, STEP_TIMEOUT).is_none() {
            return Err("after_end_subscriber_no_response".into());
        }
        extra.push(("after_end", h, end_pos));
    }

    // ---- 6. truth: the frames of this stream in the raw log
    let mut truth = env.truth_since(log_from, kind, &stream_id).map_err(|e| format!("log_unreadable:{e}"))?;
    if truth.is_empty() {
        return Err("no_frames_logged".into());
    }
    // what must be delivered is the SET of logged frames, in seq order (the order of the lines in
    // the file, and gaps/duplicates there, are C01's subject)
    truth.sort_by_key(|v| v["seq"].as_u64().unwrap_or(u64::MAX));
    for (i, v) in truth.iter().enumerate() {
        if v["seq"].as_u64() != Some(i as u64) {
            return Err("log_not_contiguous".into()); // C01's subject, not ours
        }
    }
    let last = truth.last().unwrap();
    if !is_terminal_frame(kind, last) {
        return Err("last_logged_frame_is_not_terminal".into());
    }
    if kind == Kind::Thread && truth.len() != 2 + 3 * m {
        return Err("thread_frame_count_unexpected".into());
    }
    let n_last = (truth.len() - 1) as u64;
    trace!(" truth read, announcing terminal seq {n_last}");
    let _ = term_tx.send(Some(n_last));
    for p in posts {
        let _ = p.recv_timeout(STEP_TIMEOUT);
    }

    // ---- 7. collect
    let mut attaches = Vec::new();
    for (what, h, at) in extra {
        let outcome = env.join_sub(h);
        let name = if what == "after_end" { "end" } else { "before_start" };
        attaches.push(Attach {
            what,
            planned: None,
            a1: at,
            a2: at,
            p1: name.to_string(),
            p2: name.to_string(),
            deferred: false,
            outcome,
        });
    }
    for i in 0..n_plans {
        let Some(h) = subs[i].take() else { continue };
        let outcome = env.join_sub(h);
        attaches.push(Attach {
            what: "plan",
            planned: Some(plan.attaches[i]),
            a1: meta[i].0,
            a2: meta[i].1,
            p1: meta[i].2.clone(),
            p2: meta[i].3.clone(),
            deferred: meta[i].4,
            outcome,
        });
    }
    // a reader that gave up on the terminal frame: control subscriber (fresh, after the end)
    if attaches.iter().any(|a| a.outcome.gave_up) {
        let h = env.spawn_sub_mode(&path, term_rx.clone(), true);
        let outcome = env.join_sub(h);
        attaches.push(Attach {
            what: "control",
            planned: None,
            a1: end_pos,
            a2: end_pos,
            p1: "end".into(),
            p2: "end".into(),
            deferred: false,
            outcome,
        });
    }
    trace!(" run done");
    let overtakes = st.overtakes();
    Ok(RunResult { stream_id, truth, end_pos, attaches, path, overtakes, degraded })
}

// ---------------------------------------------------------------------------------------------
// Oracle
// ---------------------------------------------------------------------------------------------

fn attach_class(kind: Kind, a: &Attach, end_pos: usize) -> &'static str {
    match a.what {
        "before_start" => "before_start",
        "after_end" | "control" => "after_end",
        _ => {
            if a.a1 >= end_pos {
                "after_end"
            } else if inside_emission(kind, a.a1, end_pos) || inside_emission(kind, a.a2, end_pos) {
                "between_publish_record"
            } else {
                "mid"
            }
        }
    }
}

/// Judge one subscriber. `control_ok`: a fresh subscriber attached after the end did receive the
/// terminal frame (only consulted when this one gave up waiting for it).
fn judge(kind: Kind, run: &RunResult, a: &Attach, control_ok: Option<bool>, repro: &Value, rep: &mut CaseReport) {
    let k = kind.as_str();
    let o = &a.outcome;
    let detail = |extra: Value| -> Value {
        json!({
            "stream": run.path,
            "attach": a.what,
            "planned": a.planned,
            "subscribe_at": a.p1,
            "snapshot_at": a.p2,
            "snapshot_deferred": a.deferred,
            "frames_in_log": run.truth.len(),
            "received_seqs": o.payloads.iter().map(|p| serde_json::from_str::<Value>(p).ok().and_then(|v| v["seq"].as_u64())).collect::<Vec<_>>(),
            "log_types": run.truth.iter().map(|v| v["type"].clone()).collect::<Vec<_>>(),
            "more": extra,
            "replay_case_of_this_run": repro,
        })
    };
    if o.aborted {
        rep.inconclusive("subscriber_aborted");
        return;
    }
    if o.status != 200 {
        rep.fail(format!("bad_status|{k}|{}", o.status), detail(json!({})));
        return;
    }
    let n_last = (run.truth.len() - 1) as u64;
    let mut seqs: Vec<u64> = Vec::new();
    for p in &o.payloads {
        let v: Value = match serde_json::from_str(p) {
            Ok(v) => v,
            Err(e) => {
                rep.fail(format!("malformed_payload|{k}"), detail(json!({"payload": p, "error": e.to_string()})));
                continue;
            }
        };
        if v["stream_id"] != run.stream_id.as_str() || v["stream_kind"] != kind.wire() {
            rep.fail(format!("foreign_frame|{k}"), detail(json!({"payload": v})));
            continue;
        }
        let Some(s) = v["seq"].as_u64() else {
            rep.fail(format!("malformed_payload|{k}"), detail(json!({"payload": v})));
            continue;
        };
        if s > n_last {
            rep.fail(format!("frame_not_in_log|{k}"), detail(json!({"payload": v})));
        } else if v != run.truth[s as usize] {
            rep.fail(
                format!("frame_differs_from_log|{k}"),
                detail(json!({"payload": v, "logged": run.truth[s as usize]})),
            );
        }
        seqs.push(s);
    }
    // exactly once, increasing
    let mut seen = BTreeSet::new();
    let mut prev: Option<u64> = None;
    for s in &seqs {
        if !seen.insert(*s) {
            rep.fail(format!("duplicate_frame|{k}"), detail(json!({"seq": s})));
        } else if let Some(p) = prev {
            if *s < p {
                rep.fail(format!("out_of_order|{k}"), detail(json!({"seq": s, "after": p})));
            }
        }
        prev = Some(prev.map(|p| p.max(*s)).unwrap_or(*s));
    }
    // nothing missing
    let complete_view = if o.got_terminal {
        true
    } else if o.gave_up {
        match control_ok {
            // the stream does deliver its terminal frame to a fresh subscriber; this one was
            // silent for IDLE after the producer had finished
            Some(true) => true,
            // the control did not get it either: judged (deterministically) on the control itself
            Some(false) => false,
            None => {
                rep.inconclusive("terminal_frame_not_seen_and_no_control");
                false
            }
        }
    } else {
        // the body ended before the terminal frame: whatever was not delivered is lost for good
        true
    };
    if complete_view {
        if let Some(missing) = (0..=n_last).find(|s| !seen.contains(s)) {
            let cause = if kind != Kind::Thread
                && a.what == "plan"
                && a.a1 == a.a2
                && a.a1 < run.end_pos
                && a.a1 % 2 == 1
                && (a.a1 / 2) as u64 == missing
            {
                "join_between_publish_and_record"
            } else if missing == n_last {
                "terminal"
            } else {
                "mid_stream"
            };
            rep.fail(format!("lost_frame|{k}|{cause}"), detail(json!({"missing_seq": missing})));
        }
    }
}

// ---------------------------------------------------------------------------------------------
// Case driver
// ---------------------------------------------------------------------------------------------

fn n_bucket(n: usize) -> &'static str {
    match n {
        0..=4 => "n:3-4",
        5..=8 => "n:5-8",
        _ => "n:9-12",
    }
}

fn account(kind: Kind, run: &RunResult, repro: &Value, rep: &mut CaseReport, nontrivial: &mut bool) {
    if run.overtakes > 0 {
        rep.count("concurrent_emissions_overtaking", run.overtakes);
        rep.class("concurrent_emissions");
    }
    if run.degraded {
        rep.count("runs_finished_unsteered", 1);
    }
    let control = run.attaches.iter().find(|a| a.what == "control");
    let control_ok = match control {
        None => None,
        Some(c) if c.outcome.aborted || c.outcome.status != 200 || run.truth.len() >= 32 => {
            // (tokio_stream::iter yields after 32 items: "ready now" is only conclusive below that)
            rep.inconclusive("control_subscriber_unusable");
            None
        }
        Some(c) => Some(c.outcome.got_terminal),
    };
    for a in &run.attaches {
        if a.what == "control" {
            if control_ok == Some(false) {
                // A subscriber attached after the producer finished gets everything from the
                // history snapshot, which is ready without waiting: judged with no clock.
                let mut c = a.clone();
                c.outcome.got_terminal = true; // = "its view is complete"
                judge(kind, run, &c, None, repro, rep);
            }
            continue;
        }
        let cls = attach_class(kind, a, run.end_pos);
        rep.count(&format!("attach:{cls}"), 1);
        rep.count("attaches", 1);
        rep.class(format!("has_attach:{cls}"));
        if cls == "between_publish_record" {
            *nontrivial = true;
        }
        if a.deferred {
            rep.count("snapshot_blocked_until_producer_moved", 1);
        }
        if let Some((g1, g2)) = a.planned {
            if (a.a1, a.a2) == (g1.min(run.end_pos), g2.min(run.end_pos)) {
                // (a snapshot that has to wait for a lock the parked producer holds is the real
                // behaviour at that position, not a deviation from the plan)
                rep.count(if a.deferred { "attach_pairs_snapshot_waited_for_producer_lock" } else { "attach_pairs" }, 1);
            } else {
                rep.count("attach_pairs_off_plan", 1);
            }
        }
        judge(kind, run, a, control_ok, repro, rep);
    }
}

fn run_case(case: &Case, known: &KnownFindings) -> CaseReport {
    let mut rep = CaseReport::new();
    let kind = case.kind;
    let subs = case.subs.clamp(1, 3) as usize;
    rep.class(format!("kind:{}", kind.as_str()));
    rep.class(format!("subs:{subs}"));
    if kind == Kind::Thread && case.noise {
        rep.class("thread_noise");
    }
    let mut env = Env::new();
    let mut nontrivial = false;
    let mut producer_runs = 0u64;

    let mut do_run = |env: &mut Env, plan: &RunPlan, rep: &mut CaseReport, nontrivial: &mut bool| -> Option<(usize, usize)> {
        producer_runs += 1;
        match run_once(env, case, plan) {
            Ok(run) => {
                let repro = serde_json::to_value(Case {
                    plan: Plan::Explicit {
                        runs: vec![plan.attaches.iter().map(|(a, b)| (*a as u16, *b as u16)).collect()],
                        degenerate: plan.free,
                    },
                    ..case.clone()
                })
                .unwrap_or(Value::Null);
                account(kind, &run, &repro, rep, nontrivial);
                Some((run.truth.len(), run.end_pos))
            }
            Err(why) => {
                // whatever the abandoned producer still does must not leak into the next run:
                // continue on a fresh authority
                let old = std::mem::replace(env, Env::new());
                old.shutdown();
                trace!("[inconclusive] {why}");
                if std::env::var_os("C06_SHOW_INCONCLUSIVE").is_some() {
                    eprintln!("[c06 inconclusive] {why} kind={} variant={} size={} plan={:?}", kind.as_str(), case.variant, case.size, plan.attaches);
                }
                let short = why.split(':').next().unwrap_or("").to_string();
                rep.inconclusive(&short);
                None
            }
        }
    };

    match &case.plan {
        Plan::Explicit { runs, degenerate } => {
            rep.class("plan:explicit");
            if *degenerate {
                let cal = RunPlan { attaches: vec![], before_start: true, after_end: true, free: true };
                let _ = do_run(&mut env, &cal, &mut rep, &mut nontrivial);
            }
            for r in runs {
                if r.is_empty() {
                    continue;
                }
                let attaches: Vec<(usize, usize)> =
                    r.iter().take(3).map(|(a, b)| (*a as usize, (*b).max(*a) as usize)).collect();
                let plan = RunPlan { attaches, before_start: false, after_end: false, free: false };
                if let Some((n, _)) = do_run(&mut env, &plan, &mut rep, &mut nontrivial) {
                    rep.class(n_bucket(n));
                }
            }
        }
        Plan::Auto { picks } => {
            // calibration: free run with the two degenerate attaches
            let cal = RunPlan { attaches: vec![], before_start: true, after_end: true, free: true };
            let Some((n_frames, _)) = do_run(&mut env, &cal, &mut rep, &mut nontrivial) else {
                rep.count("producer_runs", producer_runs);
                env.shutdown();
                return rep;
            };
            rep.class(n_bucket(n_frames));
            if rep.fails.iter().any(|f| known.matches(&f.sig).is_none()) {
                rep.class("stopped_at_first_violation");
                rep.count("producer_runs", producer_runs);
                rep.nontrivial = nontrivial;
                env.shutdown();
                return rep;
            }
            let produced = match kind {
                Kind::Thread => n_frames.saturating_sub(2),
                _ => n_frames,
            };
            let end = produced * kind.steps_per_frame();
            let mut pairs: BTreeSet<(usize, usize)> = BTreeSet::new();
            let exhaustive = n_frames <= EXHAUSTIVE_MAX_FRAMES;
            if exhaustive {
                rep.class("plan:exhaustive");
                for g1 in 0..=end {
                    for g2 in g1..=end {
                        pairs.insert((g1, g2));
                    }
                }
            } else {
                rep.class("plan:sampled");
                for (a, b, mode) in picks {
                    let g1 = pick(*a, end + 1);
                    let g2 = match mode {
                        0 => g1,
                        1 => (g1 + 1).min(end),
                        _ => g1 + pick(*b, end + 1 - g1),
                    };
                    pairs.insert((g1, g2));
                }
            }
            let total_before = pairs.len();
            if exclude_known() && kind != Kind::Thread {
                pairs.retain(|(g1, g2)| !(g1 == g2 && *g1 < end && g1 % 2 == 1));
                rep.count("excluded_known_publish_before_record", (total_before - pairs.len()) as u64);
            }
            // spread the pairs over producer runs of `subs` subscribers each
            let list: Vec<(usize, usize)> = pairs.into_iter().collect();
            let runs = list.len().div_ceil(subs);
            let mut off_plan_before = 0u64;
            for r in 0..runs {
                let attaches: Vec<(usize, usize)> =
                    (0..subs).filter_map(|j| list.get(r + j * runs).copied()).collect();
                let plan = RunPlan { attaches, before_start: false, after_end: false, free: false };
                if do_run(&mut env, &plan, &mut rep, &mut nontrivial).is_none() {
                    off_plan_before += 1;
                }
                // a violation that is not a listed known finding fails the case: no need to go on
                // (keeps shrinking cheap); listed ones are tolerated and the search continues
                if rep.fails.iter().any(|f| known.matches(&f.sig).is_none()) {
                    rep.class("stopped_at_first_violation");
                    off_plan_before += 1;
                    break;
                }
            }
            let off_plan = rep.counters.iter().find(|(k, _)| k == "attach_pairs_off_plan").map(|(_, v)| *v).unwrap_or(0);
            if exhaustive && off_plan == 0 && off_plan_before == 0 {
                rep.class("exhaustive_pairs");
            }
        }
    }
    rep.count("producer_runs", producer_runs);
    rep.nontrivial = nontrivial;
    env.shutdown();
    rep
}

#[path = "c06/bigjoin.rs"]
mod bigjoin;
#[path = "c06/reinput.rs"]
mod reinput;

fn main() {
    let mut check = Check::new("C06", "exploration");
    check.assume("truth = the frames of the stream in the raw events.jsonl (own reader); a frame a subscriber must see is a frame that is in the log once the producer finished");
    check.assume("the terminal frame of a stream (session_ended / terminal tool_task_status / last appended thread frame) is the last frame in the log; once it arrived on an SSE body, every earlier frame that will ever arrive has arrived (history is sent before live frames, one FIFO broadcast channel per stream)");
    check.assume("'the terminal frame never arrived' is the only verdict that involves a clock: the body had nothing ready 2 s after the producer finished (every send is complete by then) AND a control subscriber attached afterwards decides, from history alone and without a clock, whether the stream delivers its terminal frame");
    check.assume("task producers are made schedule-independent by a FIFO gate inside the generated shell command (chunk j+1 is printed only after chunk j was read by the output pump)");
    check.assume("thread streams are observed from the moment the thread id is known (after POST /threads/{root}/branch returned): frames 0 and 1 are always history");
    check.extra("exhaustive_within_case", json!(true));
    check.extra("exclude_known_publish_before_record", json!(exclude_known()));
    check.note("broadcast lag (a subscriber more than 16 384 frames behind, `Err(_) => None` in the live filter) is not generated");
    let rule = "case = stream kind x producer (3..12 frames) x 1-3 subscribers per producer run; a free calibration run with the before-start and after-end attaches, then for <= 8 frames EVERY (g1,g2) attach pair over the producer's step sequence (subscribe at step g1, history snapshot at step g2), each on a fresh stream driven step by step through the hook points; > 8 frames: 40 generated pairs. non-trivial = at least one attach whose subscribe or snapshot step lies strictly inside an emission (session/task: between publish and record; thread: between log append, sidecar append and broadcast); distinct by case hash";
    let n = check.cases(120, 1500);
    let known = check.known().clone();
    check.group(
        "attach",
        rule,
        GroupOpts { cases: n, threads: shard_threads(), watchdog_s: 900, max_shrink_iters: 6 },
        case_strategy,
        |c: &Case| run_case(c, &known),
    );
    let n = check.cases(160, 2400);
    check.group(
        "thread_big_join",
        "thread stream, multi-MiB message frames (0.5-6 MiB) appended through the engine's own store; the instant each frame is broadcast (in-process receiver as clock) a fresh subscriber opens GET /threads/{id}/events on the real router; every subscriber must receive every frame up to the largest seq it saw, once, in order. non-trivial = a frame of >= 512 KiB; distinct by case hash",
        GroupOpts { cases: n, threads: 4, watchdog_s: 900, max_shrink_iters: 10 },
        bigjoin::strategy,
        bigjoin::run,
    );
    let n = check.cases(200, 4000);
    check.group(
        "second_input",
        "a session (plain, or the one a thread post created; stub prompt or ls/bash/write tool run) receives 1-2 FURTHER inputs, right after the first 202 or after its run ended; subscribers attach before, between and at the end. The stream in the log must be seq 0,1,2,... once each and every subscriber must hold exactly those frames (a prefix while the stream was still produced, all of them at the end). non-trivial = at least one further input; distinct by case hash",
        GroupOpts { cases: n, threads: 8, watchdog_s: 600, max_shrink_iters: 10 },
        reinput::strategy,
        reinput::run,
    );
    check.finish();
}

fn shard_threads() -> usize {
    std::env::var("C06_THREADS").ok().and_then(|s| s.parse().ok()).unwrap_or(8)
}
