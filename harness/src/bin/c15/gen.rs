//! Generators: event scripts rendered to SSE bytes, partition plans, and the five case families.

use proptest::prelude::*;
use rv::engine::pick;
use rv::gen::json::{deep, value as json_value, JsonOpts};
use rv::gen::text::any_char_mix;
use serde::{Deserialize, Serialize};
use serde_json::{json, Value};

// ------------------------------------------------------------------ case

#[derive(Debug, Clone, Serialize, Deserialize)]
#[serde(rename_all = "snake_case")]
enum BytesRepr {
    Utf8(String),
    Hex(String),
}

/// Stream bytes; written to replay files as text when valid UTF-8, else as hex.
#[derive(Debug, Clone, PartialEq, Serialize, Deserialize)]
#[serde(from = "BytesRepr", into = "BytesRepr")]
pub struct Bytes(pub Vec<u8>);

impl From<BytesRepr> for Bytes {
    fn from(r: BytesRepr) -> Bytes {
        match r {
            BytesRepr::Utf8(s) => Bytes(s.into_bytes()),
            BytesRepr::Hex(h) => Bytes(hex::decode(h).unwrap_or_default()),
        }
    }
}

impl From<Bytes> for BytesRepr {
    fn from(b: Bytes) -> BytesRepr {
        match String::from_utf8(b.0) {
            Ok(s) => BytesRepr::Utf8(s),
            Err(e) => BytesRepr::Hex(hex::encode(e.into_bytes())),
        }
    }
}

#[derive(Debug, Clone, Serialize, Deserialize)]
#[serde(rename_all = "snake_case")]
pub enum Part {
    EachByte,
    Every { n: u16, off: u16 },
    Cuts { label: String, cuts: Vec<u32> },
}

#[derive(Debug, Clone, Serialize, Deserialize)]
pub struct Case {
    pub kind: String,
    pub stream: Bytes,
    pub seq0: u64,
    pub strict: bool,
    pub parts: Vec<Part>,
    /// single split positions [a, b) enumerated inside the case
    pub exh: Option<(u32, u32)>,
    /// concatenation of the `delta` strings of the script's dispatched text-delta events
    pub expect_text: Option<String>,
    /// number of events the script rendered completely (generator self-check)
    pub expect_events: Option<u32>,
}

// ------------------------------------------------------------------ text

fn uni_char() -> BoxedStrategy<char> {
    prop_oneof![
        12 => any_char_mix(),
        2 => proptest::sample::select(vec![
            '\u{85}', '\u{a0}', '\u{3000}', '\u{2029}', '\u{b}', '\u{c}', '\u{7f}', '\u{fffd}', '\u{d7ff}',
            '\u{10ffff}', '\u{80}', '\u{7ff}', '\u{800}', '\u{ffff}', '\u{10000}', ' ', ':',
        ]),
    ]
    .boxed()
}

fn uni_text(max: usize) -> BoxedStrategy<String> {
    proptest::collection::vec(uni_char(), 0..=max).prop_map(|v| v.into_iter().collect()).boxed()
}

fn delta_text() -> BoxedStrategy<String> {
    prop_oneof![
        8 => uni_text(16),
        2 => uni_text(60),
        1 => Just(String::new()),
        1 => (proptest::sample::select(vec!["é", "€", "😀", "a", "\u{2028}"]), 20usize..160)
            .prop_map(|(u, n)| u.repeat(n)),
    ]
    .boxed()
}

/// Text for one logical payload that is not JSON: no CR / LF (they cannot occur inside a line).
fn line_text(max: usize) -> BoxedStrategy<String> {
    uni_text(max)
        .prop_map(|s| s.chars().map(|c| if c == '\r' || c == '\n' { '\u{2424}' } else { c }).collect())
        .boxed()
}

// ------------------------------------------------------------------ script model

#[derive(Debug, Clone)]
enum Payload {
    /// layout 0: one line; 1: split at token boundaries chosen by `picks`; 2: pretty-printed lines
    Json { value: Value, ascii: bool, layout: u8, picks: Vec<u16> },
    /// arbitrary text (normally not JSON), split into data lines at `picks`
    Raw { text: String, picks: Vec<u16>, allow_ws_start: bool },
    Done,
}

#[derive(Debug, Clone)]
enum Name {
    Absent,
    Match,
    Other(String),
    Empty,
}

#[derive(Debug, Clone)]
struct Ev {
    payload: Payload,
    name: Name,
    name_pos: u16,
    name_space: bool,
    spaces: Vec<u8>,
    noise: Vec<(u16, String)>,
    /// Some(text) when the script says "this is a text delta carrying `text`"
    delta: Option<String>,
}

#[derive(Debug, Clone)]
enum Item {
    Ev(Ev),
    ExtraBlank,
    Loose(String),
    EventOnly(String),
}

#[derive(Debug, Clone)]
struct Script {
    items: Vec<Item>,
    eol: u8,
    eol_bits: Vec<bool>,
    /// 0 complete, 1 final terminator removed, 2 last two terminators removed, 3 truncated at pick,
    /// 4 the LF of a final CRLF removed (the last event is dispatched by finish())
    ending: u8,
    trunc: u16,
}

pub struct Rendered {
    pub text: String,
    /// (offset of the blank line that dispatches the event, script delta, is the [DONE] event)
    pub evs: Vec<(usize, Option<String>, bool)>,
}

fn ascii_escape(s: &str) -> String {
    let mut out = String::with_capacity(s.len());
    for ch in s.chars() {
        if ch.is_ascii() {
            out.push(ch);
        } else {
            let mut buf = [0u16; 2];
            for u in ch.encode_utf16(&mut buf) {
                out.push_str(&format!("\\u{:04x}", u));
            }
        }
    }
    out
}

/// Offsets in compact JSON text where a line break is insignificant (outside strings, after a
/// structural character).
fn safe_splits(s: &str) -> Vec<usize> {
    let mut out = Vec::new();
    let mut in_str = false;
    let mut esc = false;
    for (i, ch) in s.char_indices() {
        if in_str {
            if esc {
                esc = false;
            } else if ch == '\\' {
                esc = true;
            } else if ch == '"' {
                in_str = false;
            }
            continue;
        }
        match ch {
            '"' => in_str = true,
            ',' | ':' | '{' | '[' => {
                if i + 1 < s.len() {
                    out.push(i + 1);
                }
            }
            _ => {}
        }
    }
    out
}

fn split_at(s: &str, mut at: Vec<usize>) -> Vec<String> {
    at.sort_unstable();
    at.dedup();
    let mut out = Vec::new();
    let mut prev = 0;
    for a in at {
        if a > prev && a < s.len() && s.is_char_boundary(a) {
            out.push(s[prev..a].to_string());
            prev = a;
        }
    }
    out.push(s[prev..].to_string());
    out
}

fn data_values(p: &Payload) -> Vec<String> {
    match p {
        Payload::Done => vec!["[DONE]".to_string()],
        Payload::Json { value, ascii, layout, picks } => {
            let compact = serde_json::to_string(value).unwrap_or_else(|_| "null".into());
            let compact = if *ascii { ascii_escape(&compact) } else { compact };
            match layout {
                0 => vec![compact],
                1 => {
                    let safe = safe_splits(&compact);
                    if safe.is_empty() {
                        vec![compact]
                    } else {
                        let at = picks.iter().map(|p| safe[pick(*p, safe.len())]).collect();
                        split_at(&compact, at)
                    }
                }
                _ => {
                    let pretty = serde_json::to_string_pretty(value).unwrap_or_else(|_| "null".into());
                    let pretty = if *ascii { ascii_escape(&pretty) } else { pretty };
                    pretty.split('\n').map(|l| l.to_string()).collect()
                }
            }
        }
        Payload::Raw { text, picks, allow_ws_start } => {
            let idx: Vec<usize> = text.char_indices().map(|(i, _)| i).filter(|i| *i > 0).collect();
            if idx.is_empty() || picks.is_empty() {
                return vec![text.clone()];
            }
            let at: Vec<usize> = picks
                .iter()
                .map(|p| idx[pick(*p, idx.len())])
                .filter(|i| *allow_ws_start || !text[*i..].starts_with(char::is_whitespace))
                .collect();
            split_at(text, at)
        }
    }
}

fn block_lines(e: &Ev) -> Vec<String> {
    let values = data_values(&e.payload);
    let mut lines: Vec<String> = values
        .iter()
        .enumerate()
        .map(|(i, v)| {
            let sp = match e.spaces.get(i % e.spaces.len().max(1)).copied().unwrap_or(1) {
                0 => "",
                1 => " ",
                2 => "  ",
                _ => "\t",
            };
            format!("data:{sp}{v}")
        })
        .collect();
    let name_value: Option<String> = match &e.name {
        Name::Absent => None,
        Name::Empty => Some(String::new()),
        Name::Other(s) => Some(s.clone()),
        Name::Match => match &e.payload {
            Payload::Json { value, .. } => value.get("type").and_then(|t| t.as_str()).map(|t| t.to_string()),
            _ => None,
        },
    };
    if let Some(n) = name_value {
        let l = if e.name_space || n.is_empty() { format!("event: {n}") } else { format!("event:{n}") };
        let l = if n.is_empty() && !e.name_space { "event:".to_string() } else { l };
        let at = pick(e.name_pos, lines.len() + 1);
        lines.insert(at, l);
    }
    for (pos, n) in &e.noise {
        let at = pick(*pos, lines.len() + 1);
        lines.insert(at, n.clone());
    }
    lines
}

fn strip_last_terminator(s: &mut String) {
    if s.ends_with("\r\n") {
        s.truncate(s.len() - 2);
    } else if s.ends_with('\n') {
        s.truncate(s.len() - 1);
    }
}

fn render(sc: &Script) -> Rendered {
    let mut out = String::new();
    let mut evs = Vec::new();
    let mut line_no = 0usize;
    let mut push_line = |out: &mut String, l: &str| {
        out.push_str(l);
        let crlf = match sc.eol {
            0 => false,
            1 => true,
            _ => sc.eol_bits.get(line_no % sc.eol_bits.len().max(1)).copied().unwrap_or(false),
        };
        out.push_str(if crlf { "\r\n" } else { "\n" });
        line_no += 1;
    };
    for item in &sc.items {
        match item {
            Item::Ev(e) => {
                for l in block_lines(e) {
                    push_line(&mut out, &l);
                }
                evs.push((out.len(), e.delta.clone(), matches!(e.payload, Payload::Done)));
                push_line(&mut out, "");
            }
            Item::ExtraBlank => push_line(&mut out, ""),
            Item::Loose(l) => push_line(&mut out, l),
            Item::EventOnly(n) => {
                push_line(&mut out, &format!("event: {n}"));
                push_line(&mut out, "");
            }
        }
    }
    match sc.ending {
        1 => strip_last_terminator(&mut out),
        2 => {
            strip_last_terminator(&mut out);
            strip_last_terminator(&mut out);
        }
        3 => {
            let mut at = pick(sc.trunc, out.len() + 1);
            while !out.is_char_boundary(at) {
                at -= 1;
            }
            out.truncate(at);
        }
        4 => {
            if out.ends_with("\r\n") {
                out.truncate(out.len() - 1);
            }
        }
        _ => {}
    }
    Rendered { text: out, evs }
}

// ------------------------------------------------------------------ script strategies

fn ident() -> BoxedStrategy<String> {
    "[a-z][a-z0-9_]{0,7}".prop_map(|s| s).boxed()
}

fn text_delta_value() -> BoxedStrategy<(Value, Option<String>)> {
    (delta_text(), any::<bool>(), 0u32..1000)
        .prop_map(|(d, minimal, n)| {
            let v = if minimal {
                json!({"type": "response.output_text.delta", "delta": d})
            } else {
                json!({"type": "response.output_text.delta", "sequence_number": n, "item_id": "msg_1",
                       "output_index": 0, "content_index": 0, "delta": d, "logprobs": []})
            };
            (v, Some(d))
        })
        .boxed()
}

fn response_obj(id: &str, status: &str) -> Value {
    json!({"id": id, "object": "response", "created_at": 0, "status": status, "model": "m", "output": [],
           "error": null, "incomplete_details": null, "instructions": null, "metadata": {},
           "parallel_tool_calls": false, "temperature": 0, "tool_choice": "auto", "tools": [], "top_p": 1,
           "truncation": "disabled", "previous_response_id": null})
}

fn other_event_value() -> BoxedStrategy<(Value, Option<String>)> {
    let fc = (ident(), ident(), uni_text(10), any::<bool>(), 0u8..4, 0u64..3).prop_map(|(call, name, args, with_id, which, oi)| {
        let mut item = json!({"type": "function_call", "call_id": format!("call_{call}"), "name": name,
                              "arguments": args, "status": "completed"});
        if with_id {
            item["id"] = json!(format!("fc_{call}"));
        }
        match which {
            0 => json!({"type": "response.output_item.added", "sequence_number": 2, "output_index": oi, "item": item}),
            1 => {
                let mut v = json!({"type": "response.function_call_arguments.delta", "sequence_number": 3, "output_index": oi, "delta": args});
                if with_id {
                    v["item_id"] = json!(format!("fc_{call}"));
                }
                v
            }
            2 => {
                let mut v = json!({"type": "response.function_call_arguments.done", "sequence_number": 4, "output_index": oi, "arguments": args});
                if with_id {
                    v["item_id"] = json!(format!("fc_{call}"));
                }
                v
            }
            _ => json!({"type": "response.output_item.done", "sequence_number": 5, "output_index": oi, "item": item}),
        }
    });
    let schema_invalid = prop_oneof![
        4 => json_value(JsonOpts { depth: 2, floats: true, max_len: 3 }),
        1 => Just(json!({"type": "response.output_text.delta", "delta": 7})),
        1 => Just(json!({"type": "response.output_text.delta"})),
        1 => Just(json!({"type": "response.output_text.delta", "delta": null, "x": "[DONE]"})),
        1 => Just(json!({"type": 5, "delta": "not a delta"})),
        1 => Just(json!(["response.output_text.delta", "x"])),
        1 => Just(json!("[DONE]")),
        1 => Just(json!(0)),
        1 => Just(Value::Null),
        1 => uni_text(8).prop_map(|s| json!({"type": "response.unknown", "note": s, "data": "data: x", "nested": {"k": [1, 2, {"z": s}]}})),
    ];
    prop_oneof![
        2 => ident().prop_map(|id| json!({"type": "response.created", "sequence_number": 1, "response": response_obj(&format!("resp_{id}"), "in_progress")})),
        2 => ident().prop_map(|id| json!({"type": "response.completed", "sequence_number": 9, "response": response_obj(&format!("resp_{id}"), "completed")})),
        1 => Just(json!({"type": "response.completed", "sequence_number": 9, "response": {}})),
        5 => fc,
        5 => schema_invalid,
    ]
    .prop_map(|v| (v, None))
    .boxed()
}

fn deep_value() -> BoxedStrategy<(Value, Option<String>)> {
    (118usize..=131, any::<bool>()).prop_map(|(d, obj)| (deep(d, obj), None)).boxed()
}

fn raw_payload() -> BoxedStrategy<Payload> {
    let templates = proptest::sample::select(vec![
        "{not json}",
        "{\"type\":\"response.output_text.delta\",\"delta\":\"cut",
        "[DONE] ",
        "[done]",
        "[DONE][DONE]",
        "",
        "{}{}",
        "{\"a\":1,}",
        "\u{feff}{}",
        "data: nested",
        ":not a comment",
        "1e999999",
        "\"unterminated",
        "nul",
    ])
    .prop_map(|s| s.to_string());
    (
        prop_oneof![3 => templates, 5 => line_text(24)],
        proptest::collection::vec(any::<u16>(), 0..3),
        prop_oneof![9 => Just(false), 1 => Just(true)],
    )
        .prop_map(|(text, picks, allow_ws_start)| Payload::Raw { text, picks, allow_ws_start })
        .boxed()
}

fn noise_line() -> BoxedStrategy<String> {
    prop_oneof![
        3 => proptest::sample::select(vec![
            ": keep-alive", ":", ":data: {\"x\":1}", ": [DONE]", ":\u{e9}\u{1f600}", "id: 42", "id", "retry: 3000",
            "retry:abc", "foo: bar", "datax: 1", "eventful: y", "Data: UPPER", "EVENT: X", " data: leading-space",
            "x", "  ", "\t", "da", "[DONE]", "{\"type\":\"response.output_text.delta\",\"delta\":\"bare json line\"}",
            "id: \u{20ac}", " : spaced comment",
        ]).prop_map(|s| s.to_string()),
        1 => line_text(12).prop_map(|s| format!(":{s}")),
    ]
    .boxed()
}

fn name_strategy() -> BoxedStrategy<Name> {
    prop_oneof![
        5 => Just(Name::Match),
        2 => Just(Name::Absent),
        1 => Just(Name::Empty),
        2 => prop_oneof![
            Just("response.completed".to_string()),
            Just("message".to_string()),
            Just("response.output_text.delta".to_string()),
            Just("\u{e9}v\u{e9}nement \u{1f600}".to_string()),
            Just("a:b".to_string()),
            Just(" padded ".to_string()),
            ident(),
        ].prop_map(Name::Other),
    ]
    .boxed()
}

fn ev_strategy() -> BoxedStrategy<Ev> {
    let json_payload = (
        prop_oneof![10 => text_delta_value(), 10 => other_event_value(), 1 => deep_value()],
        prop_oneof![3 => Just(false), 1 => Just(true)],
        prop_oneof![5 => Just(0u8), 3 => Just(1u8), 1 => Just(2u8)],
        proptest::collection::vec(any::<u16>(), 1..4),
    )
        .prop_map(|((value, delta), ascii, layout, picks)| (Payload::Json { value, ascii, layout, picks }, delta));
    let payload = prop_oneof![
        8 => json_payload,
        2 => raw_payload().prop_map(|p| (p, None)),
    ];
    (
        payload,
        name_strategy(),
        any::<u16>(),
        prop_oneof![4 => Just(true), 1 => Just(false)],
        proptest::collection::vec(prop_oneof![2 => Just(0u8), 30 => Just(1u8), 1 => Just(2u8), 1 => Just(3u8)], 1..4),
        proptest::collection::vec((any::<u16>(), noise_line()), 0..2),
    )
        .prop_map(|((payload, delta), name, name_pos, name_space, spaces, noise)| Ev {
            payload,
            name,
            name_pos,
            name_space,
            spaces,
            noise,
            delta,
        })
        .boxed()
}

fn done_ev() -> BoxedStrategy<Ev> {
    (
        prop_oneof![8 => Just(Name::Absent), 1 => Just(Name::Other("done".to_string()))],
        prop_oneof![1 => Just(0u8), 10 => Just(1u8)],
        proptest::collection::vec((any::<u16>(), noise_line()), 0..2),
    )
        .prop_map(|(name, space, noise)| Ev {
            payload: Payload::Done,
            name,
            name_pos: 0,
            name_space: true,
            spaces: vec![space],
            noise,
            delta: None,
        })
        .boxed()
}

fn item_strategy() -> BoxedStrategy<Item> {
    prop_oneof![
        20 => ev_strategy().prop_map(Item::Ev),
        1 => Just(Item::ExtraBlank),
        2 => noise_line().prop_map(Item::Loose),
        1 => ident().prop_map(Item::EventOnly),
    ]
    .boxed()
}

fn eol_strategy() -> BoxedStrategy<(u8, Vec<bool>)> {
    (
        prop_oneof![2 => Just(0u8), 2 => Just(1u8), 2 => Just(2u8)],
        proptest::collection::vec(any::<bool>(), 1..9),
    )
        .boxed()
}

fn seq0_strategy() -> BoxedStrategy<u64> {
    prop_oneof![
        2 => Just(0u64),
        3 => 1u64..100,
        1 => 1000u64..100_000,
        2 => prop_oneof![Just(1u64 << 32), Just((1u64 << 53) + 1), (1u64 << 40)..(1u64 << 62)],
    ]
    .boxed()
}

// ------------------------------------------------------------------ partitions

pub struct Anatomy {
    pub len: usize,
    /// offsets whose byte is a UTF-8 continuation byte (a cut there is inside a character)
    pub mb_inner: Vec<usize>,
    /// offsets between CR and LF
    pub crlf: Vec<usize>,
    /// (start, len) of `data:` / `event:` at line start and of `[DONE]`
    pub tokens: Vec<(usize, usize)>,
    pub done_tokens: Vec<usize>,
    pub after_lf: Vec<usize>,
}

pub fn anatomy(b: &[u8]) -> Anatomy {
    let mut a = Anatomy { len: b.len(), mb_inner: vec![], crlf: vec![], tokens: vec![], done_tokens: vec![], after_lf: vec![] };
    for i in 0..b.len() {
        if b[i] & 0xC0 == 0x80 && i > 0 {
            a.mb_inner.push(i);
        }
        if i > 0 && b[i] == b'\n' && b[i - 1] == b'\r' {
            a.crlf.push(i);
        }
        if b[i] == b'\n' && i + 1 < b.len() {
            a.after_lf.push(i + 1);
        }
        let line_start = i == 0 || b[i - 1] == b'\n';
        if line_start && b[i..].starts_with(b"data:") {
            a.tokens.push((i, 5));
        }
        if line_start && b[i..].starts_with(b"event:") {
            a.tokens.push((i, 6));
        }
        if b[i..].starts_with(b"[DONE]") {
            a.tokens.push((i, 6));
            a.done_tokens.push(i);
        }
    }
    a
}

fn cuts_part(label: &str, mut cuts: Vec<usize>, len: usize) -> Option<Part> {
    cuts.retain(|c| *c > 0 && *c < len);
    cuts.sort_unstable();
    cuts.dedup();
    if cuts.is_empty() {
        None
    } else {
        Some(Part::Cuts { label: label.to_string(), cuts: cuts.into_iter().map(|c| c as u32).collect() })
    }
}

/// ~12 partitions resolved against the concrete stream. `picks` needs >= 40 entries.
pub fn build_parts(b: &[u8], picks: &[u16], extra: Vec<(String, Vec<usize>)>) -> Vec<Part> {
    let an = anatomy(b);
    let len = an.len;
    let mut parts = Vec::new();
    if len < 2 {
        return parts;
    }
    let p = |i: usize| picks[i % picks.len()];
    if len <= 20_000 {
        parts.push(Part::EachByte);
    }
    parts.extend(cuts_part("all_crlf", an.crlf.clone(), len));
    parts.extend(cuts_part("all_multibyte_inner", an.mb_inner.clone(), len));
    // inside every data: / event: / [DONE] token, at a generated inner offset
    let inner: Vec<usize> = an
        .tokens
        .iter()
        .enumerate()
        .map(|(k, (s, l))| s + 1 + pick(p(k), l - 1))
        .collect();
    parts.extend(cuts_part("all_tokens_inner", inner, len));
    parts.extend(cuts_part("after_each_lf", an.after_lf.clone(), len));
    parts.extend(cuts_part("before_each_lf", an.after_lf.iter().map(|c| c - 1).collect(), len));
    // forced single cuts, one per category
    let mut forced = Vec::new();
    if !an.mb_inner.is_empty() {
        forced.push(an.mb_inner[pick(p(30), an.mb_inner.len())]);
    }
    if !an.crlf.is_empty() {
        forced.push(an.crlf[pick(p(31), an.crlf.len())]);
    }
    parts.extend(cuts_part("forced_multibyte_crlf", forced, len));
    let mut forced = Vec::new();
    if !an.tokens.is_empty() {
        let (s, l) = an.tokens[pick(p(32), an.tokens.len())];
        forced.push(s + 1 + pick(p(33), l - 1));
    }
    if !an.done_tokens.is_empty() {
        let s = an.done_tokens[pick(p(34), an.done_tokens.len())];
        forced.push(s + 1 + pick(p(35), 5));
    }
    parts.extend(cuts_part("forced_token", forced, len));
    // k random cuts
    for r in 0..3usize {
        let k = 1 + pick(p(36 + r), 8);
        let cuts: Vec<usize> = (0..k).map(|j| 1 + pick(p(r * 8 + j + 8), len - 1)).collect();
        parts.extend(cuts_part(&format!("random_k#{k}"), cuts, len));
    }
    let ns = [2u16, 3, 4, 5, 7, 13, 64];
    parts.push(Part::Every { n: ns[pick(p(39), ns.len())], off: p(7) % 64 });
    for (label, cuts) in extra {
        parts.extend(cuts_part(&label, cuts, len));
    }
    parts
}

fn picks_strategy() -> BoxedStrategy<Vec<u16>> {
    proptest::collection::vec(any::<u16>(), 40).boxed()
}

fn exh_for(len: usize) -> Option<(u32, u32)> {
    if len >= 2 && len <= 512 {
        Some((1, len as u32))
    } else {
        None
    }
}

// ------------------------------------------------------------------ case families

fn script_strategy(max_items: usize, with_done: BoxedStrategy<bool>) -> BoxedStrategy<Script> {
    (
        proptest::collection::vec(item_strategy(), 1..=max_items),
        with_done,
        done_ev(),
        eol_strategy(),
        prop_oneof![12 => Just(0u8), 2 => Just(1u8), 1 => Just(2u8), 3 => Just(3u8), 2 => Just(4u8)],
        any::<u16>(),
    )
        .prop_map(|(mut items, with_done, done, (eol, eol_bits), ending, trunc)| {
            if with_done {
                items.push(Item::Ev(done));
            }
            Script { items, eol, eol_bits, ending, trunc }
        })
        .boxed()
}

fn expectations(r: &Rendered) -> (String, u32) {
    let len = r.text.len();
    let mut text = String::new();
    let mut n = 0u32;
    for (blank_start, delta, _) in &r.evs {
        // dispatched iff at least the first byte of its blank line's terminator is present
        if len >= blank_start + 1 {
            n += 1;
            if let Some(d) = delta {
                text.push_str(d);
            }
        }
    }
    (text, n)
}

pub fn script_case() -> BoxedStrategy<Case> {
    (
        script_strategy(7, prop_oneof![3 => Just(true), 1 => Just(false)].boxed()),
        seq0_strategy(),
        any::<bool>(),
        picks_strategy(),
    )
        .prop_map(|(sc, seq0, strict, picks)| {
            let r = render(&sc);
            let (text, n) = expectations(&r);
            let bytes = r.text.clone().into_bytes();
            let parts = build_parts(&bytes, &picks, vec![]);
            Case {
                kind: "script".into(),
                exh: exh_for(bytes.len()),
                stream: Bytes(bytes),
                seq0,
                strict,
                parts,
                expect_text: Some(text),
                expect_events: Some(n),
            }
        })
        .boxed()
}

pub fn after_done_case() -> BoxedStrategy<Case> {
    (
        proptest::collection::vec(ev_strategy(), 0..4),
        done_ev(),
        proptest::collection::vec(ev_strategy(), 1..4),
        eol_strategy(),
        seq0_strategy(),
        any::<bool>(),
        picks_strategy(),
    )
        .prop_map(|(pre, done, post, (eol, eol_bits), seq0, strict, picks)| {
            let mut items: Vec<Item> = pre.into_iter().map(Item::Ev).collect();
            items.push(Item::Ev(done));
            items.extend(post.into_iter().map(Item::Ev));
            let sc = Script { items, eol, eol_bits, ending: 0, trunc: 0 };
            let r = render(&sc);
            let bytes = r.text.clone().into_bytes();
            // cuts around the [DONE] block: right after its blank line, at its blank line, before it
            let mut extra = Vec::new();
            if let Some((blank_start, _, _)) = r.evs.iter().find(|e| e.2) {
                let end = if bytes[*blank_start..].starts_with(b"\r\n") { blank_start + 2 } else { blank_start + 1 };
                extra.push(("at_done_end".to_string(), vec![end]));
                extra.push(("at_done_blank".to_string(), vec![*blank_start]));
                extra.push(("after_done_plus".to_string(), vec![end + 1 + pick(picks[5], bytes.len().saturating_sub(end + 1).max(1))]));
            }
            let parts = build_parts(&bytes, &picks, extra);
            Case {
                kind: "after_done".into(),
                exh: exh_for(bytes.len()),
                stream: Bytes(bytes),
                seq0,
                strict,
                parts,
                expect_text: None,
                expect_events: Some(r.evs.len() as u32),
            }
        })
        .boxed()
}

fn invalid_atom() -> BoxedStrategy<Vec<u8>> {
    prop_oneof![
        3 => (0x80u8..=0xBF).prop_map(|b| vec![b]),
        2 => proptest::sample::select(vec![0xC0u8, 0xC1, 0xF5, 0xF8, 0xFE, 0xFF]).prop_map(|b| vec![b]),
        3 => proptest::sample::select(vec![0xC3u8, 0xE2, 0xED, 0xF0, 0xF4]).prop_map(|b| vec![b]),
        3 => proptest::sample::select(vec![
            vec![0xE2u8, 0x82], vec![0xF0, 0x9F], vec![0xF0, 0x9F, 0x98], vec![0xE2, 0x82, 0xE2, 0x82],
            vec![0xF0, 0x9F, 0x98, 0xF0, 0x9F],
        ]),
        2 => proptest::sample::select(vec![
            vec![0xC0u8, 0xAF], vec![0xE0, 0x80, 0xAF], vec![0xED, 0xA0, 0x80], vec![0xF4, 0x90, 0x80, 0x80],
            vec![0xFF, 0xFE], vec![0x80, 0x80, 0x80],
        ]),
    ]
    .boxed()
}

pub fn invalid_utf8_case() -> BoxedStrategy<Case> {
    (
        script_strategy(5, prop_oneof![3 => Just(true), 1 => Just(false)].boxed()),
        proptest::collection::vec((any::<u16>(), invalid_atom()), 1..4),
        // cut the stream inside its last multi-byte character (incomplete sequence at end of stream)
        prop_oneof![4 => Just(false), 1 => Just(true)],
        seq0_strategy(),
        any::<bool>(),
        picks_strategy(),
    )
        .prop_map(|(sc, inj, cut_tail, seq0, strict, picks)| {
            let r = render(&sc);
            let mut bytes = r.text.into_bytes();
            if cut_tail {
                if let Some(last) = (0..bytes.len()).rev().find(|i| bytes[*i] >= 0xC0) {
                    bytes.truncate(last + 1);
                }
            }
            let mut around = Vec::new();
            let mut inj: Vec<(usize, Vec<u8>)> = inj.into_iter().map(|(p, a)| (pick(p, bytes.len() + 1), a)).collect();
            inj.sort_by_key(|(p, _)| std::cmp::Reverse(*p));
            for (at, atom) in &inj {
                let tail = bytes.split_off(*at);
                bytes.extend_from_slice(atom);
                bytes.extend_from_slice(&tail);
            }
            // recompute injection positions in the final stream (ascending)
            let mut shift = 0usize;
            for (at, atom) in inj.iter().rev() {
                let s = at + shift;
                for k in 0..=atom.len() {
                    around.push(s + k);
                }
                shift += atom.len();
            }
            if std::str::from_utf8(&bytes).is_ok() {
                // the injection happened to complete a character: force one stray byte
                bytes.push(0xFF);
                bytes.extend_from_slice(b"\n\n");
            }
            let single: Vec<(String, Vec<usize>)> = around.iter().take(6).enumerate().map(|(i, c)| (format!("single_at_injection#{i}"), vec![*c])).collect();
            let mut extra = vec![("around_injections".to_string(), around)];
            extra.extend(single);
            let parts = build_parts(&bytes, &picks, extra);
            Case {
                kind: "invalid_utf8".into(),
                exh: exh_for(bytes.len()).filter(|_| bytes.len() <= 256),
                stream: Bytes(bytes),
                seq0,
                strict,
                parts,
                expect_text: None,
                expect_events: None,
            }
        })
        .boxed()
}

fn fixtures() -> Vec<(String, String)> {
    let manifest = std::path::Path::new(env!("CARGO_MANIFEST_DIR"));
    let mut roots: Vec<std::path::PathBuf> = Vec::new();
    if let Some(r) = std::env::var_os("RV_REPO") {
        roots.push(r.into());
    }
    if let Some(parent) = manifest.parent() {
        roots.push(parent.to_path_buf()); // <worktree>/.rv-harness -> <worktree>
    }
    roots.push("/repo".into());
    for root in roots {
        let mut out = Vec::new();
        for dir in ["fixtures/openresponses", "crates/rip-provider-openresponses/fixtures/openresponses"] {
            let mut files: Vec<_> = std::fs::read_dir(root.join(dir))
                .map(|rd| rd.filter_map(|e| e.ok().map(|e| e.path())).collect())
                .unwrap_or_default();
            files.sort();
            for f in files {
                if f.extension().and_then(|e| e.to_str()) == Some("sse") {
                    if let Ok(s) = std::fs::read_to_string(&f) {
                        if !out.iter().any(|(_, t): &(String, String)| t == &s) {
                            out.push((f.file_name().unwrap_or_default().to_string_lossy().to_string(), s));
                        }
                    }
                }
            }
        }
        if !out.is_empty() {
            return out;
        }
    }
    vec![(
        "builtin".to_string(),
        "event: response.output_text.delta\ndata: {\"type\":\"response.output_text.delta\",\"delta\":\"\"}\n\ndata: [DONE]\n\n".to_string(),
    )]
}

pub fn fixture_case() -> BoxedStrategy<Case> {
    let fx = fixtures();
    (
        0..fx.len(),
        eol_strategy(),
        prop_oneof![1 => Just(None), 2 => delta_text().prop_map(Some)],
        any::<u16>(),
        seq0_strategy(),
        any::<bool>(),
        picks_strategy(),
    )
        .prop_map(move |(i, (eol, bits), fill, win, seq0, strict, picks)| {
            let mut text = fx[i].1.clone();
            if let Some(f) = &fill {
                let js = serde_json::to_string(f).unwrap_or_else(|_| "\"\"".into());
                // prepend the generated text to every string-valued `delta`
                let inner = &js[1..js.len() - 1];
                text = text.replace("\"delta\":\"", &format!("\"delta\":\"{inner}"));
            }
            if eol != 0 {
                let mut out = String::with_capacity(text.len() + 512);
                for (n, line) in text.split_inclusive('\n').enumerate() {
                    let crlf = eol == 1 || bits[n % bits.len()];
                    match line.strip_suffix('\n') {
                        Some(l) if crlf => {
                            out.push_str(l);
                            out.push_str("\r\n");
                        }
                        _ => out.push_str(line),
                    }
                }
                text = out;
            }
            let bytes = text.into_bytes();
            let parts = build_parts(&bytes, &picks, vec![]);
            let len = bytes.len();
            let exh = if len <= 512 {
                exh_for(len)
            } else {
                let a = 1 + pick(win, len - 256);
                Some((a as u32, (a + 256) as u32))
            };
            Case {
                kind: format!("fixture:{}", fx[i].0),
                exh,
                stream: Bytes(bytes),
                seq0,
                strict,
                parts,
                expect_text: None,
                expect_events: None,
            }
        })
        .boxed()
}

pub fn soup_case() -> BoxedStrategy<Case> {
    let token = prop_oneof![
        8 => proptest::sample::select(vec![
            &b"data:"[..], b"data: ", b"event:", b"event: x", b"[DONE]", b"data: [DONE]", b"\n", b"\n", b"\n\n", b"\r",
            b"\r\n", b"\r\n\r\n", b":", b" ", b"{}", b"{\"type\":\"response.output_text.delta\",\"delta\":\"\xc3\xa9\"}",
            b"\xc3\xa9", b"\xf0\x9f\x98\x80", b"\xef\xbf\xbd", b"\xe2\x82\xac", b"id: 1", b"\xef\xbb\xbf", b"\t", b"x", b"data",
            b"event", b"\"", b"\\", b"1",
        ]).prop_map(|b| b.to_vec()),
        // whole lines, so that most soups dispatch events
        8 => proptest::sample::select(vec![
            &b"data: {\"type\":\"response.output_text.delta\",\"delta\":\"\xe2\x82\xacx\"}\n"[..], b"data: 1\n", b"data: x\r\n", b"data:\n",
            b"data: [DONE]\n", b"event: e\n", b"event: \xc3\xa9\r\n", b": c\n", b"\n", b"\r\n", b"\n", b"data: {\n",
            b"data: }\n", b"data: \"\xf0\x9f\x98\x80\"\n\n", b"data: x\r\r\n", b"data: y\rdata: z\n", b"\r\r", b"\n\r",
        ]).prop_map(|b| b.to_vec()),
    ];
    (
        proptest::collection::vec(token, 1..40),
        prop_oneof![2 => Just(vec![]), 1 => proptest::collection::vec((any::<u16>(), invalid_atom()), 1..3)],
        seq0_strategy(),
        any::<bool>(),
        picks_strategy(),
    )
        .prop_map(|(mut tokens, inv, seq0, strict, picks)| {
            for (p, atom) in inv {
                let at = pick(p, tokens.len() + 1);
                tokens.insert(at, atom);
            }
            let bytes: Vec<u8> = tokens.concat();
            let parts = build_parts(&bytes, &picks, vec![]);
            Case {
                kind: "soup".into(),
                exh: exh_for(bytes.len()),
                stream: Bytes(bytes),
                seq0,
                strict,
                parts,
                expect_text: None,
                expect_events: None,
            }
        })
        .boxed()
}
