//! Canonical frames, the two decode paths, and the spec-following reference SSE splitter.

use std::path::Path;

use rip_kernel::{Event, EventKind, ProviderEventStatus};
use rip_provider_openresponses::{EventFrameMapper, SseDecoder, ValidationOptions};
use rv::engine::runner::catch;
use serde::Serialize;
use serde_json::Value;

// ------------------------------------------------------------------ canonical frames

#[derive(Debug, Clone, PartialEq, Serialize)]
#[serde(tag = "frame", rename_all = "snake_case")]
pub enum NKind {
    Provider {
        provider: String,
        status: String,
        event_name: Option<String>,
        data: Option<Value>,
        raw: Option<String>,
        errors: Vec<String>,
        response_errors: Vec<String>,
    },
    Text {
        delta: String,
    },
    Other {
        debug: String,
    },
}

/// Every field of a frame except `id` and `timestamp_ms`.
#[derive(Debug, Clone, PartialEq, Serialize)]
pub struct NFrame {
    pub seq: u64,
    pub session_id: String,
    pub kind: NKind,
}

pub fn norm(ev: &Event) -> NFrame {
    let kind = match &ev.kind {
        EventKind::ProviderEvent {
            provider,
            status,
            event_name,
            data,
            raw,
            errors,
            response_errors,
        } => NKind::Provider {
            provider: provider.clone(),
            status: match status {
                ProviderEventStatus::Event => "event",
                ProviderEventStatus::Done => "done",
                ProviderEventStatus::InvalidJson => "invalid_json",
            }
            .to_string(),
            event_name: event_name.clone(),
            data: data.clone(),
            raw: raw.clone(),
            errors: errors.clone(),
            response_errors: response_errors.clone(),
        },
        EventKind::OutputTextDelta { delta } => NKind::Text { delta: delta.clone() },
        other => NKind::Other { debug: format!("{other:?}") },
    };
    NFrame { seq: ev.seq, session_id: ev.session_id.clone(), kind }
}

pub fn first_done(frames: &[NFrame]) -> Option<usize> {
    frames
        .iter()
        .position(|f| matches!(&f.kind, NKind::Provider { status, .. } if status == "done"))
}

pub fn diff_kind(a: &[NFrame], b: &[NFrame]) -> String {
    if a.len() != b.len() {
        return "frame_count".to_string();
    }
    for (x, y) in a.iter().zip(b.iter()) {
        if x == y {
            continue;
        }
        if x.seq != y.seq {
            return "seq".into();
        }
        if x.session_id != y.session_id {
            return "session_id".into();
        }
        return match (&x.kind, &y.kind) {
            (
                NKind::Provider { provider: p1, status: s1, event_name: n1, data: d1, raw: r1, errors: e1, response_errors: q1 },
                NKind::Provider { provider: p2, status: s2, event_name: n2, data: d2, raw: r2, errors: e2, response_errors: q2 },
            ) => {
                if s1 != s2 {
                    "status"
                } else if n1 != n2 {
                    "event_name"
                } else if d1 != d2 {
                    "data"
                } else if r1 != r2 {
                    "raw"
                } else if e1 != e2 {
                    "errors"
                } else if q1 != q2 {
                    "response_errors"
                } else if p1 != p2 {
                    "provider"
                } else {
                    "unknown"
                }
            }
            (NKind::Text { .. }, NKind::Text { .. }) => "text_delta",
            _ => "frame_kind",
        }
        .to_string();
    }
    "unknown".into()
}

// ------------------------------------------------------------------ known finding: U+FFFD runs

/// True when the byte stream contains an invalid sequence whose `error_len` is >= 2 (a multi-byte
/// character truncated after two or three bytes and followed by a non-continuation byte).
pub fn has_long_invalid_seq(mut bytes: &[u8]) -> bool {
    loop {
        match std::str::from_utf8(bytes) {
            Ok(_) => return false,
            Err(e) => {
                let at = e.valid_up_to();
                match e.error_len() {
                    None => return false,
                    Some(n) if n >= 2 => return true,
                    Some(n) => bytes = &bytes[at + n..],
                }
            }
        }
    }
}

fn collapse_str(s: &str) -> String {
    let mut out = String::with_capacity(s.len());
    let mut prev = false;
    for ch in s.chars() {
        let is = ch == '\u{FFFD}';
        if !(is && prev) {
            out.push(ch);
        }
        prev = is;
    }
    out
}

fn collapse_value(v: &Value) -> Value {
    match v {
        Value::String(s) => Value::String(collapse_str(s)),
        Value::Array(a) => Value::Array(a.iter().map(collapse_value).collect()),
        Value::Object(m) => Value::Object(m.iter().map(|(k, v)| (collapse_str(k), collapse_value(v))).collect()),
        other => other.clone(),
    }
}

/// Frames with runs of U+FFFD collapsed and `errors` dropped (parser messages carry columns).
pub fn collapse_fffd(frames: &[NFrame]) -> Vec<NFrame> {
    frames
        .iter()
        .map(|f| NFrame {
            seq: f.seq,
            session_id: f.session_id.clone(),
            kind: match &f.kind {
                NKind::Provider { provider, status, event_name, data, raw, response_errors, .. } => NKind::Provider {
                    provider: provider.clone(),
                    status: status.clone(),
                    event_name: event_name.as_deref().map(collapse_str),
                    data: data.as_ref().map(collapse_value),
                    raw: raw.as_deref().map(collapse_str),
                    errors: Vec::new(),
                    response_errors: response_errors.iter().map(|e| collapse_str(e)).collect(),
                },
                NKind::Text { delta } => NKind::Text { delta: collapse_str(delta) },
                NKind::Other { debug } => NKind::Other { debug: debug.clone() },
            },
        })
        .collect()
}

// ------------------------------------------------------------------ decode paths

pub fn split_chunks(bytes: &[u8], cuts: &[usize]) -> Vec<Vec<u8>> {
    let mut out = Vec::with_capacity(cuts.len() + 1);
    let mut prev = 0usize;
    for &c in cuts {
        if c > prev && c < bytes.len() {
            out.push(bytes[prev..c].to_vec());
            prev = c;
        }
    }
    out.push(bytes[prev..].to_vec());
    out
}

thread_local! {
    static RT: tokio::runtime::Runtime = tokio::runtime::Builder::new_current_thread()
        .build()
        .expect("tokio runtime");
}

pub struct PipeOut {
    pub frames: Vec<NFrame>,
    pub final_seq: u64,
}

/// The real byte-level pipe (push_bytes per chunk until the terminal marker, then finish).
pub fn run_pipe(bytes: &[u8], cuts: &[usize], seq0: u64, strict: bool, log: &Path) -> Result<PipeOut, String> {
    let chunks = split_chunks(bytes, cuts);
    let r = catch(|| RT.with(|rt| rt.block_on(ripd::verif::run_sse_pipe(chunks, seq0, strict, log))));
    let _ = std::fs::remove_file(log);
    r.map(|(events, final_seq)| PipeOut { frames: events.iter().map(norm).collect(), final_seq })
}

pub struct DirectOut {
    pub frames: Vec<NFrame>,
    /// ParsedEvent.raw of every parsed event
    pub parsed_raw: Vec<String>,
}

/// SseDecoder::push/finish + EventFrameMapper::map directly; cuts are moved down to the nearest
/// character boundary because `push` takes `&str`.
pub fn run_direct(text: &str, cuts: &[usize], strict: bool) -> Result<DirectOut, String> {
    catch(|| {
        let validation = if strict { ValidationOptions::strict() } else { ValidationOptions::compat_missing_item_ids() };
        let mut decoder = SseDecoder::new_with_validation(validation);
        let mut mapper = EventFrameMapper::new("c15-direct");
        let mut frames = Vec::new();
        let mut parsed_raw = Vec::new();
        let mut prev = 0usize;
        let mut feed = |decoder: &mut SseDecoder, chunk: &str| {
            for pe in decoder.push(chunk) {
                parsed_raw.push(pe.raw.clone());
                frames.extend(mapper.map(&pe).iter().map(norm));
            }
        };
        for &c in cuts {
            let mut c = c.min(text.len());
            while !text.is_char_boundary(c) {
                c -= 1;
            }
            if c > prev && c < text.len() {
                feed(&mut decoder, &text[prev..c]);
                prev = c;
            }
        }
        feed(&mut decoder, &text[prev..]);
        for pe in decoder.finish() {
            parsed_raw.push(pe.raw.clone());
            frames.extend(mapper.map(&pe).iter().map(norm));
        }
        DirectOut { frames, parsed_raw }
    })
}

// ------------------------------------------------------------------ event boundaries on bytes

/// Offsets at which a new event block starts: 0, len, and every offset right after a blank line
/// (bytes before it end with LF LF or LF CR LF). Sorted.
pub fn boundaries_bytes(b: &[u8]) -> Vec<usize> {
    let mut v = vec![0usize];
    for p in 1..b.len() {
        if b[p - 1] != b'\n' {
            continue;
        }
        let blank = (p >= 2 && b[p - 2] == b'\n') || (p >= 3 && b[p - 2] == b'\r' && b[p - 3] == b'\n') || p == 1 || (p == 2 && b[0] == b'\r');
        if blank {
            v.push(p);
        }
    }
    v.push(b.len());
    v.dedup();
    v
}

// ------------------------------------------------------------------ reference decoder

#[derive(Debug, Clone)]
pub struct RefEvent {
    /// Some(name) when the event name is unambiguous, None when it is not asserted
    pub name: Option<Option<String>>,
    /// data values with one optional leading space removed (SSE spec), joined with "\n"
    pub joined_spec: String,
    /// data values with all leading whitespace removed (implementation), joined with "\n"
    pub joined_trim: String,
    pub n_lines: usize,
}

impl RefEvent {
    pub fn ws_ambiguous(&self) -> bool {
        self.joined_spec != self.joined_trim
    }
    pub fn is_done(&self) -> bool {
        !self.ws_ambiguous() && self.joined_spec == "[DONE]"
    }
    pub fn is_done_certain_or_possible(&self) -> bool {
        self.joined_spec == "[DONE]" || self.joined_trim == "[DONE]"
    }
    pub fn is_invalid_json(&self) -> bool {
        !self.is_done_certain_or_possible() && serde_json::from_str::<Value>(&self.joined_spec).is_err()
    }
}

pub struct RefOut {
    pub events: Vec<RefEvent>,
}

fn name_of(value: &str) -> (Option<String>, bool) {
    // spec: one leading space removed; implementation: trimmed, empty -> none
    let spec = value.strip_prefix(' ').unwrap_or(value);
    let trimmed = value.trim();
    let certain = spec == trimmed;
    (if trimmed.is_empty() { None } else { Some(trimmed.to_string()) }, certain)
}

/// Spec-following splitter for valid UTF-8 streams whose lines end with LF or CRLF.
/// Returns None when the stream is outside that domain (a CR not followed by LF other than as
/// the very last byte, a bare `data`/`event` line, a leading BOM).
pub fn ref_decode(s: &str) -> Option<RefOut> {
    if s.starts_with('\u{FEFF}') {
        return None;
    }
    let b = s.as_bytes();
    let mut events = Vec::new();
    let mut data_spec: Vec<String> = Vec::new();
    let mut data_trim: Vec<String> = Vec::new();
    // event name under "kept across a data-less blank line" and "reset by any blank line"
    let mut name_keep: (Option<String>, bool) = (None, true);
    let mut name_reset: (Option<String>, bool) = (None, true);
    let mut i = 0usize;
    while i < b.len() {
        let (mut line, next) = match b[i..].iter().position(|c| *c == b'\n') {
            Some(j) => (&s[i..i + j], i + j + 1),
            None => {
                let rest = &s[i..];
                if rest.ends_with('\r') {
                    // a CR as the very last byte ends the line (SSE spec; finish() agrees)
                    (rest, b.len())
                } else {
                    break; // unterminated last line: never processed as a complete line that dispatches
                }
            }
        };
        if let Some(l) = line.strip_suffix('\r') {
            line = l;
        }
        if line.contains('\r') {
            return None;
        }
        i = next;
        if line.is_empty() {
            if !data_spec.is_empty() {
                let certain = name_keep == name_reset && name_keep.1;
                events.push(RefEvent {
                    name: if certain { Some(name_keep.0.clone()) } else { None },
                    joined_spec: data_spec.join("\n"),
                    joined_trim: data_trim.join("\n"),
                    n_lines: data_spec.len(),
                });
                data_spec.clear();
                data_trim.clear();
                name_keep = (None, true);
            }
            name_reset = (None, true);
            continue;
        }
        if line.starts_with(':') {
            continue;
        }
        match line.split_once(':') {
            Some(("event", value)) => {
                name_keep = name_of(value);
                name_reset = name_keep.clone();
            }
            Some(("data", value)) => {
                data_spec.push(value.strip_prefix(' ').unwrap_or(value).to_string());
                data_trim.push(value.trim_start().to_string());
            }
            Some(_) => {}
            None => {
                if line == "data" || line == "event" {
                    return None;
                }
            }
        }
    }
    Some(RefOut { events })
}

// ------------------------------------------------------------------ expectation

#[derive(Debug, Clone)]
pub enum Exp {
    Provider {
        /// None: one of done / invalid_json (whitespace-ambiguous terminal marker)
        status: Option<&'static str>,
        data: Option<Value>,
        /// asserted when Some
        raw: Option<String>,
        name: Option<Option<String>>,
    },
    Text(String),
}

impl Exp {
    pub fn describe(&self) -> Value {
        match self {
            Exp::Provider { status, data, raw, name } => {
                serde_json::json!({"frame": "provider_event", "status": status, "data": data, "raw": raw, "event_name": name})
            }
            Exp::Text(d) => serde_json::json!({"frame": "output_text_delta", "delta": d}),
        }
    }

    /// None when `got` satisfies the expectation, else what differs.
    pub fn mismatch(&self, got: &NKind) -> Option<&'static str> {
        match (self, got) {
            (Exp::Text(d), NKind::Text { delta }) => (d != delta).then_some("derived_text_delta"),
            (Exp::Text(_), _) => Some("missing_derived_text_frame"),
            (Exp::Provider { status, data, raw, name }, NKind::Provider { provider, status: gs, event_name, data: gd, raw: gr, .. }) => {
                if provider != "openresponses" {
                    return Some("provider");
                }
                match status {
                    Some(s) => {
                        if gs != s {
                            return Some("status");
                        }
                        if *s == "event" {
                            if gd != data {
                                return Some("data");
                            }
                            if gr.is_some() {
                                return Some("raw_on_parsed_event");
                            }
                        } else {
                            if gd.is_some() {
                                return Some("data_on_unparsed_event");
                            }
                            if let Some(r) = raw {
                                if gr.as_ref() != Some(r) {
                                    return Some("raw");
                                }
                            }
                        }
                        if *s != "done" {
                            if let Some(n) = name {
                                if n != event_name {
                                    return Some("event_name");
                                }
                            }
                        }
                        None
                    }
                    None => (gs != "done" && gs != "invalid_json").then_some("status"),
                }
            }
            (Exp::Provider { .. }, NKind::Text { .. }) => Some("unexpected_derived_text_frame"),
            (Exp::Provider { .. }, NKind::Other { .. }) => Some("unexpected_frame_kind"),
        }
    }
}

fn derived_text(v: &Value) -> Option<String> {
    let obj = v.as_object()?;
    if obj.get("type").and_then(|t| t.as_str()) != Some("response.output_text.delta") {
        return None;
    }
    obj.get("delta").and_then(|d| d.as_str()).map(|d| d.to_string())
}

/// One provider_event per dispatched event, in order; a derived output_text_delta after every
/// `response.output_text.delta` whose `delta` is a string.
pub fn expected_frames(events: &[RefEvent]) -> Vec<Exp> {
    let mut out = Vec::new();
    for e in events {
        if !e.ws_ambiguous() {
            let joined = &e.joined_spec;
            if joined == "[DONE]" {
                out.push(Exp::Provider { status: Some("done"), data: None, raw: Some(joined.clone()), name: None });
                continue;
            }
            match serde_json::from_str::<Value>(joined) {
                Ok(v) => {
                    let text = derived_text(&v);
                    out.push(Exp::Provider { status: Some("event"), data: Some(v), raw: None, name: e.name.clone() });
                    if let Some(t) = text {
                        out.push(Exp::Text(t));
                    }
                }
                Err(_) => out.push(Exp::Provider { status: Some("invalid_json"), data: None, raw: Some(joined.clone()), name: e.name.clone() }),
            }
        } else {
            let a = serde_json::from_str::<Value>(&e.joined_spec);
            let b = serde_json::from_str::<Value>(&e.joined_trim);
            match (a, b) {
                (Ok(a), Ok(b)) if a == b => {
                    let text = derived_text(&a);
                    out.push(Exp::Provider { status: Some("event"), data: Some(a), raw: None, name: e.name.clone() });
                    if let Some(t) = text {
                        out.push(Exp::Text(t));
                    }
                }
                (Err(_), Err(_)) if !e.is_done_certain_or_possible() => {
                    out.push(Exp::Provider { status: Some("invalid_json"), data: None, raw: None, name: e.name.clone() })
                }
                // the value starts with whitespace that JSON does not know (U+0085, U+00A0, VT, FF,
                // U+2028 ...): the one-space reading is not JSON, the all-whitespace-stripped reading
                // is. Which reading applies is as undocumented as for ASCII blanks; the decoder
                // strips, so its reading is followed here (this keeps the frames aligned; nothing
                // beyond "same frames for every chunking" is claimed for such a payload)
                (Err(_), Ok(b)) => {
                    let text = derived_text(&b);
                    out.push(Exp::Provider { status: Some("event"), data: Some(b), raw: None, name: e.name.clone() });
                    if let Some(t) = text {
                        out.push(Exp::Text(t));
                    }
                }
                _ => out.push(Exp::Provider { status: None, data: None, raw: None, name: None }),
            }
        }
    }
    out
}
