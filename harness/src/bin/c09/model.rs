//! Reference model of compaction over the truth frames of one thread.

use std::collections::{BTreeMap, BTreeSet};

use rip_kernel::Event;
use serde_json::{json, Value};

pub const JOB_KIND: &str = "compaction_summarizer_v1";
pub const T_MSG: &str = "continuity_message_appended";
pub const T_CKPT: &str = "continuity_compaction_checkpoint_created";
pub const T_DECIDED: &str = "continuity_compaction_auto_schedule_decided";
pub const T_SPAWNED: &str = "continuity_job_spawned";
pub const T_ENDED: &str = "continuity_job_ended";

pub fn ty(v: &Value) -> &str {
    v.get("type").and_then(|t| t.as_str()).unwrap_or("")
}
pub fn s<'a>(v: &'a Value, k: &str) -> &'a str {
    v.get(k).and_then(|t| t.as_str()).unwrap_or("")
}
pub fn u(v: &Value, k: &str) -> Option<u64> {
    v.get(k).and_then(|t| t.as_u64())
}
/// field or null (frames skip absent options; responses print null)
pub fn f<'a>(v: &'a Value, k: &str) -> &'a Value {
    v.get(k).unwrap_or(&Value::Null)
}

pub fn frames_of(events: &[Event]) -> Vec<Value> {
    events.iter().map(|e| serde_json::to_value(e).unwrap_or(Value::Null)).collect()
}

#[derive(Debug, Clone, PartialEq)]
pub struct Cut {
    pub ordinal: u64,
    pub to_seq: u64,
    pub to_message_id: String,
    pub already: bool,
    pub latest_ck: Option<String>,
}

pub type PlanSet = BTreeSet<(u64, u64, String)>;

pub fn plan_set(cuts: &[Cut]) -> PlanSet {
    cuts.iter().map(|c| (c.ordinal, c.to_seq, c.to_message_id.clone())).collect()
}

/// `[{"target_message_ordinal","to_seq","to_message_id"}]` → set; None when malformed
pub fn plan_set_of_value(v: &Value) -> Option<PlanSet> {
    let arr = v.as_array()?;
    let mut out = PlanSet::new();
    for p in arr {
        out.insert((
            u(p, "target_message_ordinal")?,
            u(p, "to_seq")?,
            p.get("to_message_id")?.as_str()?.to_string(),
        ));
    }
    if out.len() != arr.len() {
        return None; // duplicates
    }
    Some(out)
}

pub struct Model {
    pub tid: String,
    pub frames: Vec<Value>,
    /// (seq, id) of message frames in stream order; ordinal = index + 1
    pub msgs: Vec<(u64, String)>,
    /// indices into `frames` of checkpoint frames, stream order
    pub cks: Vec<usize>,
}

impl Model {
    pub fn new(tid: &str, events: &[Event]) -> Model {
        let frames = frames_of(events);
        let mut msgs = Vec::new();
        let mut cks = Vec::new();
        for (i, fr) in frames.iter().enumerate() {
            match ty(fr) {
                T_MSG => msgs.push((u(fr, "seq").unwrap_or(u64::MAX), s(fr, "id").to_string())),
                T_CKPT => cks.push(i),
                _ => {}
            }
        }
        Model { tid: tid.to_string(), frames, msgs, cks }
    }

    pub fn n(&self) -> u64 {
        self.msgs.len() as u64
    }

    pub fn head_seq(&self) -> u64 {
        self.frames.last().and_then(|fr| u(fr, "seq")).unwrap_or(0)
    }

    /// latest (by stream order) checkpoint frame with exactly this to_seq
    pub fn latest_ck_at(&self, to_seq: u64) -> Option<&Value> {
        self.cks.iter().rev().map(|i| &self.frames[*i]).find(|fr| u(fr, "to_seq") == Some(to_seq))
    }

    pub fn ordinal_of_seq(&self, seq: u64) -> Option<u64> {
        self.msgs.iter().position(|(s, _)| *s == seq).map(|p| p as u64 + 1)
    }

    /// cut points latest-first, at most `limit`
    pub fn cuts(&self, stride: u64, limit: usize) -> Vec<Cut> {
        let mut out = Vec::new();
        if stride == 0 {
            return out;
        }
        let mut k = self.n() / stride;
        while k >= 1 && out.len() < limit {
            let ordinal = k * stride; // <= n, no overflow
            let (to_seq, id) = self.msgs[(ordinal - 1) as usize].clone();
            let ck = self.latest_ck_at(to_seq);
            out.push(Cut {
                ordinal,
                to_seq,
                to_message_id: id,
                already: ck.is_some(),
                latest_ck: ck.map(|c| s(c, "checkpoint_id").to_string()),
            });
            k -= 1;
        }
        out
    }

    /// not-checkpointed cuts among the 32 latest-first, first `max_new` (already clamped)
    pub fn plan(&self, stride: u64, max_new: u32) -> Vec<Cut> {
        self.cuts(stride, 32).into_iter().filter(|c| !c.already).take(max_new as usize).collect()
    }

    pub fn cut_points_response(&self, stride: u64, limit: usize) -> Value {
        let cps: Vec<Value> = self
            .cuts(stride, limit)
            .iter()
            .map(|c| {
                json!({
                    "target_message_ordinal": c.ordinal,
                    "to_seq": c.to_seq,
                    "to_message_id": c.to_message_id,
                    "already_checkpointed": c.already,
                    "latest_checkpoint_id": c.latest_ck,
                })
            })
            .collect();
        json!({
            "thread_id": self.tid,
            "stride_messages": stride,
            "message_count": self.n(),
            "cut_rule_id": format!("stride_messages_v1/{stride}"),
            "cut_points": cps,
        })
    }

    /// greatest to_seq, ties → later frame
    pub fn latest_checkpoint(&self) -> Option<&Value> {
        let mut best: Option<&Value> = None;
        for i in &self.cks {
            let fr = &self.frames[*i];
            match best {
                Some(b) if u(b, "to_seq") > u(fr, "to_seq") => {}
                _ => best = Some(fr),
            }
        }
        best
    }

    pub fn last_decision(&self) -> Option<&Value> {
        self.frames.iter().rev().find(|fr| ty(fr) == T_DECIDED)
    }

    pub fn last_job_outcome(&self) -> Option<&Value> {
        self.frames.iter().rev().find(|fr| ty(fr) == T_ENDED && s(fr, "job_kind") == JOB_KIND)
    }

    /// compaction jobs spawned and not ended: (job_id, frame index of the spawn), stream order
    pub fn unfinished_jobs(&self) -> Vec<(String, usize)> {
        let mut ended: BTreeSet<&str> = BTreeSet::new();
        for fr in &self.frames {
            if ty(fr) == T_ENDED && s(fr, "job_kind") == JOB_KIND {
                ended.insert(s(fr, "job_id"));
            }
        }
        self.frames
            .iter()
            .enumerate()
            .filter(|(_, fr)| ty(fr) == T_SPAWNED && s(fr, "job_kind") == JOB_KIND && !ended.contains(s(fr, "job_id")))
            .map(|(i, fr)| (s(fr, "job_id").to_string(), i))
            .collect()
    }

    /// true when the most recent unfinished job's spawn frame is comfortably inside the documented
    /// best-effort detection window (the implementation scans the last 512 frames / 512 KiB)
    pub fn unfinished_in_window(&self) -> bool {
        let Some((_, idx)) = self.unfinished_jobs().into_iter().last() else {
            return false;
        };
        let after = &self.frames[idx..];
        let bytes: usize = after.iter().map(|fr| fr.to_string().len() + 1).sum();
        after.len() <= 200 && bytes <= 200 * 1024
    }

    /// seqs of non-message frames
    pub fn non_message(&self) -> Vec<(u64, String)> {
        self.frames
            .iter()
            .filter(|fr| ty(fr) != T_MSG)
            .map(|fr| (u(fr, "seq").unwrap_or(0), s(fr, "id").to_string()))
            .collect()
    }

    /// distinct to_seqs that carry at least one checkpoint frame, ascending
    pub fn checkpointed_seqs(&self) -> Vec<u64> {
        let set: BTreeSet<u64> = self.cks.iter().filter_map(|i| u(&self.frames[*i], "to_seq")).collect();
        set.into_iter().collect()
    }
}

/// Job frame pairing over a whole stream: every job id has ≤1 spawned, ≤1 ended, ended after spawned.
/// Returns (violations, jobs_spawned, jobs_ended).
pub fn job_pairing(frames: &[Value]) -> (Vec<String>, u64, u64) {
    let mut spawned: BTreeMap<String, usize> = BTreeMap::new();
    let mut ended: BTreeMap<String, usize> = BTreeMap::new();
    let mut bad = Vec::new();
    for (i, fr) in frames.iter().enumerate() {
        match ty(fr) {
            T_SPAWNED => {
                if spawned.insert(s(fr, "job_id").to_string(), i).is_some() {
                    bad.push(format!("job {} spawned twice", s(fr, "job_id")));
                }
            }
            T_ENDED => {
                let id = s(fr, "job_id").to_string();
                if !spawned.contains_key(&id) {
                    bad.push(format!("job {id} ended without an earlier spawn"));
                }
                if ended.insert(id.clone(), i).is_some() {
                    bad.push(format!("job {id} ended twice"));
                }
            }
            _ => {}
        }
    }
    (bad, spawned.len() as u64, ended.len() as u64)
}
