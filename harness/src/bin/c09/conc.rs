//! Concurrent callers: 2–4 OS threads share one ContinuityStore and issue auto / schedule /
//! read calls while another thread appends messages. Stress sample, no schedule control; only
//! final-state invariants are asserted (the docs allow several jobs on one cut point).

use std::collections::BTreeMap;

use proptest::prelude::*;
use ripd::{
    CompactionAutoScheduleV1Request, CompactionAutoV1Request, CompactionCutPointsV1Request,
    CompactionStatusV1Request,
};
use rv::engine::runner::catch;
use rv::engine::CaseReport;
use rv::store::{ops_strategy, Interp, Op, OpWeights};
use serde::{Deserialize, Serialize};
use serde_json::{json, Value};

use crate::checks::checkpoint_problems;
use crate::model::*;

/// Finding F-C09-1 (see the report): tolerated by construction and counted while it is not listed
/// in known_findings.json; once listed (main sets SCHED_REPLAN_LISTED) it is reported under its
/// signature and the engine tolerates it. Set to false to make it a hard failure.
pub const EXCLUDE_SCHED_REPLAN: bool = false;
pub const SIG_SCHED_REPLAN: &str = "concurrent|schedule_job_plan_differs_from_spawn_frame";
pub static SCHED_REPLAN_LISTED: std::sync::atomic::AtomicBool = std::sync::atomic::AtomicBool::new(false);

#[derive(Debug, Clone, Serialize, Deserialize)]
pub enum ConcCall {
    Auto { stride: u64, max_new: Option<u32> },
    Schedule { stride: u64, max_new: Option<u32>, block: Option<bool>, execute: Option<bool> },
    CutPoints { stride: u64 },
    Status { stride: u64 },
}

#[derive(Debug, Clone, Serialize, Deserialize)]
pub struct ConcCase {
    pub ops: Vec<Op>,
    pub workers: Vec<Vec<ConcCall>>,
    /// messages appended by a further thread during the concurrent phase
    pub msgs: Vec<String>,
    pub restart_before: bool,
}

fn conc_call_s() -> BoxedStrategy<ConcCall> {
    let stride = || prop_oneof![3 => Just(1u64), 4 => Just(2u64), 3 => Just(3u64), 2 => Just(5u64), 1 => Just(16u64)];
    let max_new = || prop_oneof![2 => Just(None), 2 => Just(Some(1u32)), 2 => Just(Some(2)), 2 => Just(Some(3)), 1 => Just(Some(32))];
    prop_oneof![
        5 => (stride(), max_new()).prop_map(|(stride, max_new)| ConcCall::Auto { stride, max_new }),
        5 => (stride(), max_new(),
              prop_oneof![1 => Just(None), 3 => Just(Some(false)), 1 => Just(Some(true))],
              prop_oneof![4 => Just(None), 1 => Just(Some(false))])
            .prop_map(|(stride, max_new, block, execute)| ConcCall::Schedule { stride, max_new, block, execute }),
        1 => stride().prop_map(|stride| ConcCall::CutPoints { stride }),
        1 => stride().prop_map(|stride| ConcCall::Status { stride }),
    ]
    .boxed()
}

pub fn case_strategy() -> BoxedStrategy<ConcCase> {
    let w = OpWeights { msg: 30, run: 3, run_linked: 1, cursor: 1, side_effects: 3, checkpoint: 0, auto: 0, branch: 0, restart: 1, ensure: 1 };
    (
        ops_strategy(w, 50),
        proptest::collection::vec(proptest::collection::vec(conc_call_s(), 1..6), 2..5),
        proptest::collection::vec("[a-z ]{1,20}", 0..12),
        any::<bool>(),
    )
        .prop_map(|(ops, workers, msgs, restart_before)| ConcCase { ops, workers, msgs, restart_before })
        .boxed()
}

pub fn run(case: &ConcCase) -> CaseReport {
    let mut rep = CaseReport::new();
    let mut it = Interp::new("c09c");
    for op in &case.ops {
        if catch(|| it.apply(op)).is_err() {
            rep.class("history_op_panicked");
            return rep;
        }
    }
    if case.restart_before {
        it.restart();
    }
    let tid = it.thread_id(0);
    let frames_before = frames_of(&it.sandbox.truth_thread(&tid).unwrap_or_default()).len();
    let store = &it.live.store;
    let panics: std::sync::Mutex<Vec<String>> = std::sync::Mutex::new(Vec::new());
    let errors = std::sync::atomic::AtomicU64::new(0);
    std::thread::scope(|sc| {
        for calls in &case.workers {
            let (tid, panics, errors) = (&tid, &panics, &errors);
            sc.spawn(move || {
                for c in calls {
                    let r = catch(|| match c {
                        ConcCall::Auto { stride, max_new } => store
                            .compaction_auto_v1(tid, CompactionAutoV1Request { stride_messages: Some(*stride), max_new_checkpoints: *max_new, dry_run: None, actor_id: "user".into(), origin: "cli".into() })
                            .is_ok(),
                        ConcCall::Schedule { stride, max_new, block, execute } => store
                            .compaction_auto_schedule_v1(tid, CompactionAutoScheduleV1Request { stride_messages: Some(*stride), max_new_checkpoints: *max_new, block_on_inflight: *block, execute: *execute, dry_run: None, actor_id: "bot".into(), origin: "worker".into() })
                            .is_ok(),
                        ConcCall::CutPoints { stride } => store.compaction_cut_points_v1(tid, CompactionCutPointsV1Request { stride_messages: Some(*stride), limit: Some(32) }).is_ok(),
                        ConcCall::Status { stride } => store.compaction_status_v1(tid, CompactionStatusV1Request { stride_messages: Some(*stride) }).is_ok(),
                    });
                    match r {
                        Ok(true) => {}
                        Ok(false) => {
                            errors.fetch_add(1, std::sync::atomic::Ordering::Relaxed);
                        }
                        Err(p) => panics.lock().unwrap().push(p),
                    }
                }
            });
        }
        let (tid, panics) = (&tid, &panics);
        let msgs = &case.msgs;
        sc.spawn(move || {
            for m in msgs {
                if let Err(p) = catch(|| {
                    let _ = store.append_message(tid, "alice".to_string(), "cli".to_string(), m.clone());
                }) {
                    panics.lock().unwrap().push(p);
                }
            }
        });
    });
    let panics = panics.into_inner().unwrap_or_default();
    if !panics.is_empty() {
        rep.fail("concurrent|panic", json!({"panics": panics}));
        return rep;
    }
    rep.count("calls_returning_err", errors.load(std::sync::atomic::Ordering::Relaxed));

    // ---- final-state invariants
    let values = match it.sandbox.truth_values() {
        Ok(v) => v,
        Err(e) => {
            rep.fail("concurrent|log_unreadable", json!({"error": e}));
            return rep;
        }
    };
    if let Err(e) = rv::store::check_stream_numbering(&values) {
        rep.fail("concurrent|stream_numbering", json!({"error": e}));
    }
    let frames = frames_of(&it.sandbox.truth_thread(&tid).unwrap_or_default());
    let (bad, spawned, ended) = job_pairing(&frames);
    if !bad.is_empty() {
        rep.fail("concurrent|job_pairing", json!({"problems": bad}));
    }
    rep.count("jobs_spawned", spawned);
    rep.count("jobs_ended", ended);
    let msgs: Vec<(u64, String)> = frames.iter().filter(|fr| ty(fr) == T_MSG).map(|fr| (u(fr, "seq").unwrap_or(0), s(fr, "id").to_string())).collect();
    let mut ck_by_id: BTreeMap<String, (usize, &Value)> = BTreeMap::new();
    let mut same_cut_twice = false;
    let mut seen_cut: BTreeMap<u64, u32> = BTreeMap::new();
    for (i, fr) in frames.iter().enumerate() {
        if ty(fr) != T_CKPT {
            continue;
        }
        ck_by_id.insert(s(fr, "checkpoint_id").to_string(), (i, fr));
        let e = seen_cut.entry(u(fr, "to_seq").unwrap_or(0)).or_default();
        *e += 1;
        same_cut_twice |= *e > 1;
        for (part, d) in checkpoint_problems(&it.sandbox, &tid, &frames[..i], fr) {
            // basis presence is evaluated by the job against the stream it saw when it ran; with
            // racing jobs a checkpoint for a smaller to_seq may land between that read and the
            // append, so only the race-free parts are demanded here
            if part == "basis_presence" || part == "basis_not_a_prior_checkpoint" {
                rep.count("basis_checks_skipped_under_race", 1);
                continue;
            }
            rep.fail(format!("concurrent|checkpoint|{part}"), json!({"frame": fr, "detail": d}));
        }
        // stride rule: the cut is the k*stride-th message
        if let Some(st) = s(fr, "cut_rule_id").strip_prefix("stride_messages_v1/").and_then(|x| x.parse::<u64>().ok()) {
            let ord = msgs.iter().position(|(sq, _)| Some(*sq) == u(fr, "to_seq")).map(|p| p as u64 + 1);
            if st == 0 || ord.map(|o| o % st != 0).unwrap_or(true) {
                rep.fail("concurrent|checkpoint|not_a_stride_multiple", json!({"frame": fr, "ordinal": ord}));
            }
        }
    }
    rep.class_if(same_cut_twice, "several_checkpoints_on_one_cut");
    // each finished job created precisely what its spawn frame planned, between its two frames
    let mut jobs_in_phase = 0u64;
    for (i, sp) in frames.iter().enumerate() {
        if ty(sp) != T_SPAWNED {
            continue;
        }
        if i >= frames_before {
            jobs_in_phase += 1;
        }
        let jid = s(sp, "job_id");
        let Some((ei, en)) = frames.iter().enumerate().find(|(_, fr)| ty(fr) == T_ENDED && s(fr, "job_id") == jid) else {
            rep.class("job_left_unfinished");
            continue;
        };
        if s(en, "status") != "completed" {
            rep.class("job_failed");
            rep.count("jobs_failed", 1);
            if s(en, "status") != "failed" || f(en, "error") == &Value::Null {
                rep.fail("concurrent|job_ended_status_undocumented", json!({"ended": en}));
            }
            continue;
        }
        let planned = plan_set_of_value(f(f(sp, "details"), "planned"));
        let created = en.get("result").and_then(|r| r.get("created")).and_then(|c| c.as_array()).cloned().unwrap_or_default();
        let mut got = PlanSet::new();
        let mut ok = planned.is_some();
        for c in &created {
            match ck_by_id.get(s(c, "checkpoint_id")) {
                Some((ci, fr)) if *ci > i && *ci < ei && u(fr, "to_seq") == u(c, "to_seq") && s(fr, "summary_artifact_id") == s(c, "summary_artifact_id") => {
                    let ord = msgs.iter().position(|(sq, _)| Some(*sq) == u(fr, "to_seq")).map(|p| p as u64 + 1).unwrap_or(0);
                    got.insert((ord, u(fr, "to_seq").unwrap_or(0), s(fr, "to_message_id").to_string()));
                }
                _ => ok = false,
            }
        }
        if !ok || Some(&got) != planned.as_ref() || got.len() != created.len() {
            // Finding F-C09-1: compaction_auto_schedule_spawn_job_v1 plans, then
            // compaction_auto_spawn_job_v1 plans AGAIN (its plan goes into the job_spawned frame),
            // and the job is then run with the scheduler's first plan. When the stream changes
            // between the two plannings the spawn frame records cut points the job never touches.
            let decided_plan = frames
                .iter()
                .find(|fr| ty(fr) == T_DECIDED && s(fr, "job_id") == jid)
                .and_then(|fr| plan_set_of_value(f(fr, "planned")));
            let is_replan_race = ok && got.len() == created.len() && decided_plan.as_ref() == Some(&got) && planned.is_some();
            if is_replan_race && EXCLUDE_SCHED_REPLAN && !SCHED_REPLAN_LISTED.load(std::sync::atomic::Ordering::Relaxed) {
                rep.count("excluded_known:schedule_job_plan_differs_from_spawn_frame", 1);
                rep.class("excluded_known:sched_replan_race");
            } else if is_replan_race {
                rep.fail(SIG_SCHED_REPLAN, json!({"spawned": sp, "ended": en, "decision_frame_planned": decided_plan}));
            } else {
                rep.fail("concurrent|job_created_not_the_planned", json!({"spawned": sp, "ended": en, "decision_frame_planned": decided_plan}));
            }
        }
    }
    // every checkpoint frame of the phase belongs to exactly one completed/failed job result or a manual call (none here)
    rep.count("jobs_in_concurrent_phase", jobs_in_phase);
    rep.nontrivial = jobs_in_phase >= 2;
    rep.class_if(jobs_in_phase >= 2, "jobs>=2");
    rep.class_if(case.restart_before, "restart_before");
    rep.class(format!("workers:{}", case.workers.len()));
    rep
}
