//! Execution of one compaction call against the real store + comparison with the model.

use std::collections::{BTreeSet, HashMap};

use ripd::{
    CompactionAutoScheduleV1Request, CompactionAutoV1Request, CompactionCheckpointCumulativeV1Request,
    CompactionCutPointsV1Request, CompactionStatusV1Request,
};
use rv::engine::{pick, CaseReport};
use rv::store::{Interp, Sandbox, UNKNOWN_THREAD};
use serde_json::{json, Value};

use crate::model::*;
use crate::{Call, ManualSel};

pub const MANUAL_TEXT: &str = "manual summary";
const DECISIONS_DOC: [&str; 5] = ["noop", "skipped_inflight", "scheduled", "completed", "failed"];
const AUTO_STATUS_DOC: [&str; 4] = ["noop", "spawned", "completed", "failed"];

#[derive(Default)]
pub struct RunState {
    pub mutations: u64,
    pub restart_after_mutation: bool,
    pub auto_checkpoints: u64,
    pub auto_calls: u64,
    pub auto_nonempty: u64,
    pub sched_calls: u64,
    pub sched_nonempty: u64,
    pub repeats: u64,
    pub manual_on_checkpointed: u64,
    pub nontrivial: bool,
}

impl RunState {
    pub fn finish(&self, rep: &mut CaseReport) {
        rep.nontrivial = self.nontrivial;
        rep.count("auto_calls", self.auto_calls);
        rep.count("auto_calls_plan_nonempty", self.auto_nonempty);
        rep.count("schedule_calls", self.sched_calls);
        rep.count("schedule_calls_plan_nonempty", self.sched_nonempty);
        rep.count("repeat_calls", self.repeats);
        rep.count("manual_on_checkpointed_cut", self.manual_on_checkpointed);
        rep.count("auto_created_checkpoints", self.auto_checkpoints);
        rep.class_if(self.restart_after_mutation, "restart_between");
        rep.class_if(self.auto_nonempty + self.sched_nonempty > 0, "has_planned");
    }
}

pub fn call_tag(c: &Call) -> &'static str {
    match c {
        Call::CutPoints { .. } => "cut_points",
        Call::Status { .. } => "status",
        Call::Auto { .. } => "auto",
        Call::Schedule { .. } => "schedule",
        Call::Manual { .. } => "manual",
        Call::UnknownThread => "unknown_thread",
    }
}

fn stride_class(stride: Option<u64>, n: u64) -> &'static str {
    match stride {
        None => "stride:default",
        Some(0) => "stride:0",
        Some(1) => "stride:1",
        Some(x) if x >= 10_000 => "stride:huge",
        Some(x) if x == n => "stride:=n",
        Some(x) if x > n => "stride:>n",
        Some(_) => "stride:small",
    }
}

type Obs<'a> = Option<(&'a mut CaseReport, &'a mut RunState)>;

fn model_of(sb: &Sandbox, tid: &str) -> Model {
    Model::new(tid, &sb.truth_thread(tid).unwrap_or_default())
}

/// frames appended to the log by a call: (frames of `tid`, number of whole lines appended to the
/// log in total, prefix intact)
struct Delta {
    appended: Vec<Value>,
    log_lines: usize,
    bytes: usize,
    prefix_ok: bool,
}

fn delta(sb: &Sandbox, tid: &str, before_bytes: &[u8], before_frames: usize) -> Delta {
    let after = sb.log_bytes();
    let prefix_ok = after.starts_with(before_bytes);
    let suffix: &[u8] = if prefix_ok { &after[before_bytes.len()..] } else { &[] };
    let log_lines = suffix.iter().filter(|b| **b == b'\n').count();
    let all = frames_of(&sb.truth_thread(tid).unwrap_or_default());
    let appended = if all.len() >= before_frames { all[before_frames..].to_vec() } else { Vec::new() };
    Delta { appended, log_lines, bytes: suffix.len(), prefix_ok }
}

fn types_of(frames: &[Value]) -> Vec<String> {
    frames.iter().map(|fr| ty(fr).to_string()).collect()
}

// ---------------------------------------------------------------------------------------------
// exec_call: resolve against the current truth, perform, (optionally) check
// ---------------------------------------------------------------------------------------------

pub fn exec_call(it: &mut Interp, call: &Call, step: usize, mut obs: Obs) {
    match call {
        Call::CutPoints { t, stride, limit } => {
            let tid = it.thread_id(*t);
            let m = model_of(&it.sandbox, &tid);
            let stride = stride.resolve(m.n());
            query_cut_points(it, &m, stride, *limit, step, &mut obs, "cut_points");
            if let Some((rep, _)) = obs.as_mut() {
                rep.class(stride_class(stride, m.n()));
            }
        }
        Call::Status { t, stride } => {
            let tid = it.thread_id(*t);
            let m = model_of(&it.sandbox, &tid);
            let stride = stride.resolve(m.n());
            query_status(it, &m, stride, step, &mut obs, "status");
        }
        Call::Auto { t, stride, max_new, dry_run, repeat } => {
            let tid = it.thread_id(*t);
            let n0 = model_of(&it.sandbox, &tid).n();
            let stride = stride.resolve(n0);
            let mut carry: Option<PlanSet> = None;
            for r in 0..=(*repeat as usize) {
                carry = do_auto(it, &tid, stride, *max_new, *dry_run, step, r, carry, &mut obs);
            }
        }
        Call::Schedule { t, stride, max_new, block, execute, dry_run, repeat } => {
            let tid = it.thread_id(*t);
            let n0 = model_of(&it.sandbox, &tid).n();
            let stride = stride.resolve(n0);
            for r in 0..=(*repeat as usize) {
                do_schedule(it, &tid, stride, *max_new, *block, *execute, *dry_run, step, r, &mut obs);
            }
        }
        Call::Manual { t, sel, markdown } => {
            let tid = it.thread_id(*t);
            do_manual(it, &tid, sel, *markdown, step, &mut obs);
        }
        Call::UnknownThread => {
            let before = it.sandbox.log_bytes();
            let store = &it.live.store;
            let errs = [
                store.compaction_cut_points_v1(UNKNOWN_THREAD, CompactionCutPointsV1Request { stride_messages: Some(2), limit: Some(3) }).is_err(),
                store.compaction_status_v1(UNKNOWN_THREAD, CompactionStatusV1Request { stride_messages: Some(2) }).is_err(),
                store.compaction_auto_v1(UNKNOWN_THREAD, CompactionAutoV1Request { stride_messages: Some(1), max_new_checkpoints: Some(2), dry_run: None, actor_id: "user".into(), origin: "cli".into() }).is_err(),
                store.compaction_auto_schedule_v1(UNKNOWN_THREAD, CompactionAutoScheduleV1Request { stride_messages: Some(1), max_new_checkpoints: None, block_on_inflight: None, execute: None, dry_run: None, actor_id: "user".into(), origin: "cli".into() }).is_err(),
                store.compaction_checkpoint_cumulative_v1(UNKNOWN_THREAD, CompactionCheckpointCumulativeV1Request { summary_markdown: Some(MANUAL_TEXT.into()), summary_artifact_id: None, to_message_id: None, to_seq: Some(1), stride_messages: None, actor_id: "user".into(), origin: "cli".into() }).is_err(),
            ];
            if let Some((rep, _)) = obs.as_mut() {
                rep.class("unknown_thread");
                if errs.iter().any(|e| !*e) {
                    rep.fail("unknown_thread|call_succeeded", json!({"step": step, "is_err": errs}));
                }
                if it.sandbox.log_bytes() != before {
                    rep.fail("unknown_thread|wrote", json!({"step": step}));
                }
            }
        }
    }
}

// ---------------------------------------------------------------------------------------------
// queries
// ---------------------------------------------------------------------------------------------

fn query_cut_points(it: &Interp, m: &Model, stride: Option<u64>, limit: Option<u32>, step: usize, obs: &mut Obs, tag: &str) {
    let before = if obs.is_some() { it.sandbox.log_bytes() } else { Vec::new() };
    let res = it
        .live
        .store
        .compaction_cut_points_v1(&m.tid, CompactionCutPointsV1Request { stride_messages: stride, limit })
        .map(|r| serde_json::to_value(r).unwrap_or(Value::Null));
    let Some((rep, _)) = obs.as_mut() else { return };
    rep.count("cut_points_queries", 1);
    if it.sandbox.log_bytes() != before {
        rep.fail(format!("{tag}|wrote"), json!({"step": step}));
    }
    let sv = stride.unwrap_or(10_000);
    let ctx = json!({"step": step, "stride": stride, "limit": limit, "thread": m.tid, "message_count_model": m.n()});
    if sv == 0 {
        match &res {
            Err(e) if e.contains("invalid_stride") => {}
            other => rep.fail(format!("{tag}|stride0_not_invalid_stride"), json!({"ctx": ctx, "got": format!("{other:?}")})),
        }
        return;
    }
    let lim = limit.unwrap_or(1).clamp(1, 32) as usize;
    let expected = m.cut_points_response(sv, lim);
    let got = match res {
        Ok(v) => v,
        Err(e) => {
            if limit.map(|l| l > 32).unwrap_or(false) && e.contains("limit_too_large") {
                return; // documented alternative
            }
            rep.fail(format!("{tag}|unexpected_error"), json!({"ctx": ctx, "error": e}));
            return;
        }
    };
    if got == expected {
        return;
    }
    if limit == Some(0) && got == m.cut_points_response(sv, 0) {
        return; // doc: length <= limit
    }
    // name the divergence
    let part = if got["message_count"] != expected["message_count"] {
        "message_count"
    } else {
        let g = got["cut_points"].as_array().cloned().unwrap_or_default();
        let e = expected["cut_points"].as_array().cloned().unwrap_or_default();
        let col = |a: &Vec<Value>, k: &str| a.iter().map(|x| x[k].clone()).collect::<Vec<_>>();
        if col(&g, "target_message_ordinal") != col(&e, "target_message_ordinal") {
            "ordinals"
        } else if col(&g, "to_seq") != col(&e, "to_seq") || col(&g, "to_message_id") != col(&e, "to_message_id") {
            "seq_or_id"
        } else if col(&g, "already_checkpointed") != col(&e, "already_checkpointed") {
            "already_checkpointed"
        } else if col(&g, "latest_checkpoint_id") != col(&e, "latest_checkpoint_id") {
            "latest_checkpoint_id"
        } else {
            "other_field"
        }
    };
    rep.fail(format!("{tag}|{part}"), json!({"ctx": ctx, "got": got, "expected": expected}));
}

fn query_status(it: &Interp, m: &Model, stride: Option<u64>, step: usize, obs: &mut Obs, tag: &str) {
    let before = if obs.is_some() { it.sandbox.log_bytes() } else { Vec::new() };
    let res = it
        .live
        .store
        .compaction_status_v1(&m.tid, CompactionStatusV1Request { stride_messages: stride })
        .map(|r| serde_json::to_value(r).unwrap_or(Value::Null));
    let Some((rep, _)) = obs.as_mut() else { return };
    rep.count("status_queries", 1);
    if it.sandbox.log_bytes() != before {
        rep.fail(format!("{tag}|wrote"), json!({"step": step}));
    }
    let sv = stride.unwrap_or(10_000);
    let ctx = json!({"step": step, "stride": stride, "thread": m.tid});
    if sv == 0 {
        match &res {
            Err(e) if e.contains("invalid_stride") => {}
            other => rep.fail(format!("{tag}|stride0_not_invalid_stride"), json!({"ctx": ctx, "got": format!("{other:?}")})),
        }
        return;
    }
    let got = match res {
        Ok(v) => v,
        Err(e) => {
            rep.fail(format!("{tag}|unexpected_error"), json!({"ctx": ctx, "error": e}));
            return;
        }
    };
    let mut bad = |part: &str, got: &Value, exp: Value| {
        rep.fail(format!("{tag}|{part}"), json!({"ctx": ctx, "got": got, "expected": exp}));
    };
    if s(&got, "thread_id") != m.tid || u(&got, "stride_messages") != Some(sv) {
        bad("echo_fields", &got, json!({"thread_id": m.tid, "stride_messages": sv}));
    }
    if u(&got, "message_count") != Some(m.n()) {
        bad("message_count", &got["message_count"], json!(m.n()));
    }
    // latest checkpoint
    let exp_latest = match m.latest_checkpoint() {
        None => Value::Null,
        Some(fr) => json!({
            "checkpoint_id": f(fr, "checkpoint_id"), "cut_rule_id": f(fr, "cut_rule_id"),
            "summary_kind": f(fr, "summary_kind"), "summary_artifact_id": f(fr, "summary_artifact_id"),
            "to_seq": f(fr, "to_seq"), "to_message_id": f(fr, "to_message_id"),
        }),
    };
    if got["latest_checkpoint"] != exp_latest {
        bad("latest_checkpoint", &got["latest_checkpoint"], exp_latest);
    }
    // next cut point
    let exp_next = match m.cuts(sv, 32).into_iter().find(|c| !c.already) {
        None => Value::Null,
        Some(c) => json!({"target_message_ordinal": c.ordinal, "to_seq": c.to_seq, "to_message_id": c.to_message_id}),
    };
    if got["next_cut_point"] != exp_next {
        bad("next_cut_point", &got["next_cut_point"], exp_next);
    }
    // last schedule decision: mirrors the frame (subset allowed; decision_id, policy_id, decision required)
    match (m.last_decision(), &got["last_schedule_decision"]) {
        (None, Value::Null) => {}
        (Some(fr), Value::Object(o)) => {
            let mut ok = ["decision_id", "policy_id", "decision"].iter().all(|k| o.contains_key(*k));
            if f(fr, "job_id") != &Value::Null && !o.contains_key("job_id") {
                ok = false;
            }
            for (k, v) in o {
                if v != f(fr, k) {
                    ok = false;
                }
            }
            if !ok {
                bad("last_schedule_decision", &got["last_schedule_decision"], fr.clone());
            }
        }
        (fr, g) => bad("last_schedule_decision", g, fr.cloned().unwrap_or(Value::Null)),
    }
    // last job outcome: mirrors the latest job_ended of the summarizer kind
    match (m.last_job_outcome(), &got["last_job_outcome"]) {
        (None, Value::Null) => {}
        (Some(fr), Value::Object(o)) => {
            let mut ok = ["job_id", "status"].iter().all(|k| o.contains_key(*k));
            if f(fr, "error") != &Value::Null && !o.contains_key("error") {
                ok = false;
            }
            for (k, v) in o {
                let exp = if k == "created" {
                    fr.get("result").and_then(|r| r.get("created")).cloned().unwrap_or_else(|| json!([]))
                } else {
                    f(fr, k).clone()
                };
                if *v != exp {
                    ok = false;
                }
            }
            if !ok {
                bad("last_job_outcome", &got["last_job_outcome"], fr.clone());
            }
        }
        (fr, g) => bad("last_job_outcome", g, fr.cloned().unwrap_or(Value::Null)),
    }
    // inflight_job_id: documented best-effort — not asserted
}

/// after a mutation: the read capabilities must agree with the model on the new truth
fn probe(it: &Interp, tid: &str, stride: u64, step: usize, obs: &mut Obs, tag: &str) {
    if obs.is_none() {
        return;
    }
    let m = model_of(&it.sandbox, tid);
    let sv = if stride == 0 { 2 } else { stride };
    query_cut_points(it, &m, Some(sv), Some(32), step, obs, &format!("{tag}>cut_points"));
    query_status(it, &m, Some(sv), step, obs, &format!("{tag}>status"));
}

// ---------------------------------------------------------------------------------------------
// checkpoint frame + artifact validity
// ---------------------------------------------------------------------------------------------

pub fn read_artifact(sb: &Sandbox, artifact_id: &str) -> Result<Value, String> {
    if artifact_id.is_empty() || artifact_id.contains('/') || artifact_id.contains("..") {
        return Err(format!("implausible artifact id {artifact_id:?}"));
    }
    let bytes = std::fs::read(sb.blob_path(artifact_id)).map_err(|e| format!("blob missing: {e}"))?;
    serde_json::from_slice::<Value>(&bytes).map_err(|e| format!("blob does not parse: {e}"))
}

/// Validity of one checkpoint frame against the frames that precede it in the stream
/// (`prior`): message boundary, summary kind, readable artifact with matching coverage, basis
/// presence (ADR-0014 §2). Returns problems as (part, detail).
pub fn checkpoint_problems(sb: &Sandbox, tid: &str, prior: &[Value], ck: &Value) -> Vec<(&'static str, Value)> {
    let mut out = Vec::new();
    let to_seq = u(ck, "to_seq");
    let msg = prior.iter().find(|fr| ty(fr) == T_MSG && u(fr, "seq") == to_seq);
    match msg {
        None => out.push(("not_a_message_boundary", json!({"to_seq": to_seq}))),
        Some(mf) => {
            if s(ck, "to_message_id") != s(mf, "id") {
                out.push(("to_message_id_mismatch", json!({"frame": f(ck, "to_message_id"), "message": s(mf, "id")})));
            }
        }
    }
    if s(ck, "summary_kind") != "cumulative_v1" {
        out.push(("summary_kind", json!(s(ck, "summary_kind"))));
    }
    if s(ck, "checkpoint_id").is_empty() {
        out.push(("checkpoint_id_missing", Value::Null));
    }
    match read_artifact(sb, s(ck, "summary_artifact_id")) {
        Err(e) => out.push(("artifact_unreadable", json!({"artifact": s(ck, "summary_artifact_id"), "error": e}))),
        Ok(a) => {
            if s(&a, "schema") != "rip.compaction_summary.v1" || s(&a, "kind") != "cumulative_v1" {
                out.push(("artifact_schema_or_kind", json!({"schema": a["schema"], "kind": a["kind"]})));
            }
            let cov = &a["coverage"];
            if s(cov, "thread_id") != tid || u(cov, "to_seq") != to_seq {
                out.push(("artifact_coverage", json!({"coverage": cov, "thread": tid, "to_seq": to_seq})));
            }
            if let Some(mid) = cov.get("to_message_id").and_then(|x| x.as_str()) {
                if mid != s(ck, "to_message_id") {
                    out.push(("artifact_coverage_message_id", json!({"coverage": cov, "frame": f(ck, "to_message_id")})));
                }
            }
            if !a["summary_markdown"].is_string() {
                out.push(("artifact_no_markdown", Value::Null));
            }
            // ADR-0014 §2: base set iff a prior cumulative checkpoint with a smaller to_seq exists
            let prior_exists = prior.iter().any(|fr| {
                ty(fr) == T_CKPT && s(fr, "summary_kind") == "cumulative_v1" && u(fr, "to_seq") < to_seq
            });
            let base = a.get("basis").and_then(|b| b.get("base_summary_artifact_id")).and_then(|x| x.as_str());
            if prior_exists != base.is_some() {
                out.push(("basis_presence", json!({"prior_checkpoint_exists": prior_exists, "base": base})));
            } else if let Some(b) = base {
                let known = prior.iter().any(|fr| {
                    ty(fr) == T_CKPT && s(fr, "summary_artifact_id") == b && u(fr, "to_seq") < to_seq
                });
                if !known {
                    out.push(("basis_not_a_prior_checkpoint", json!({"base": b})));
                }
            }
        }
    }
    out
}

/// Job frames of one executed job inside `appended` (decision frames already removed):
/// [spawned, checkpoint × |plan|, ended] with matching ids. Returns the checkpoint frames.
#[allow(clippy::too_many_arguments)]
fn check_job_frames(
    sb: &Sandbox,
    m_before: &Model,
    job_frames: &[Value],
    plan: &[Cut],
    stride: u64,
    tag: &str,
    ctx: &Value,
    rep: &mut CaseReport,
) -> Vec<Value> {
    let types = types_of(job_frames);
    let n = job_frames.len();
    let shape_ok = n == plan.len() + 2
        && types[0] == T_SPAWNED
        && types[n - 1] == T_ENDED
        && types[1..n - 1].iter().all(|t| t == T_CKPT);
    if !shape_ok {
        rep.fail(
            format!("{tag}|frames_shape"),
            json!({"ctx": ctx, "appended_types": types, "expected": format!("[job_spawned, checkpoint x{}, job_ended]", plan.len())}),
        );
        return Vec::new();
    }
    let sp = &job_frames[0];
    let en = &job_frames[n - 1];
    let cks: Vec<Value> = job_frames[1..n - 1].to_vec();
    if s(sp, "job_id").is_empty() || s(sp, "job_id") != s(en, "job_id") {
        rep.fail(format!("{tag}|job_id_mismatch"), json!({"ctx": ctx, "spawned": sp, "ended": en}));
    }
    if s(sp, "job_kind") != JOB_KIND || s(en, "job_kind") != JOB_KIND {
        rep.fail(format!("{tag}|job_kind"), json!({"ctx": ctx, "spawned": sp, "ended": en}));
    }
    if s(en, "status") != "completed" {
        rep.fail(format!("{tag}|job_ended_status"), json!({"ctx": ctx, "ended": en}));
    }
    // the resolved cut points appear in the job frame (compaction.md, determinism invariants)
    let want = plan_set(plan);
    let details = f(sp, "details");
    if plan_set_of_value(f(details, "planned")).as_ref() != Some(&want)
        || s(details, "cut_rule_id") != format!("stride_messages_v1/{stride}")
    {
        rep.fail(format!("{tag}|job_details"), json!({"ctx": ctx, "details": details, "planned_model": plan_json(plan)}));
    }
    // checkpoints ↔ plan: a bijection on (to_seq, to_message_id)
    let got: BTreeSet<(u64, String)> = cks.iter().map(|c| (u(c, "to_seq").unwrap_or(u64::MAX), s(c, "to_message_id").to_string())).collect();
    let exp: BTreeSet<(u64, String)> = plan.iter().map(|c| (c.to_seq, c.to_message_id.clone())).collect();
    if got != exp || got.len() != cks.len() {
        rep.fail(
            format!("{tag}|checkpoints_not_the_planned"),
            json!({"ctx": ctx, "created": cks.iter().map(|c| json!({"to_seq": c["to_seq"], "to_message_id": c["to_message_id"]})).collect::<Vec<_>>(), "planned_model": plan_json(plan)}),
        );
    }
    let mut prior = m_before.frames.clone();
    prior.push(sp.clone());
    for ck in &cks {
        if s(ck, "cut_rule_id") != format!("stride_messages_v1/{stride}") {
            rep.fail(format!("{tag}|checkpoint_cut_rule"), json!({"ctx": ctx, "frame": ck}));
        }
        for (part, d) in checkpoint_problems(sb, &m_before.tid, &prior, ck) {
            rep.fail(format!("{tag}|checkpoint|{part}"), json!({"ctx": ctx, "frame": ck, "detail": d}));
        }
        prior.push(ck.clone());
    }
    // job_ended.result lists the created ids
    let created = en.get("result").and_then(|r| r.get("created")).and_then(|c| c.as_array()).cloned().unwrap_or_default();
    if result_set(&created) != frames_result_set(&cks) {
        rep.fail(format!("{tag}|job_result"), json!({"ctx": ctx, "ended": en, "checkpoints": cks}));
    }
    cks
}

fn plan_json(plan: &[Cut]) -> Value {
    Value::Array(plan.iter().map(|c| json!({"target_message_ordinal": c.ordinal, "to_seq": c.to_seq, "to_message_id": c.to_message_id})).collect())
}

type ResSet = BTreeSet<(String, String, u64, String, String)>;

fn result_set(items: &[Value]) -> ResSet {
    items
        .iter()
        .map(|r| (s(r, "checkpoint_id").to_string(), s(r, "summary_artifact_id").to_string(), u(r, "to_seq").unwrap_or(u64::MAX), s(r, "to_message_id").to_string(), s(r, "cut_rule_id").to_string()))
        .collect()
}

fn frames_result_set(cks: &[Value]) -> ResSet {
    result_set(cks)
}

// ---------------------------------------------------------------------------------------------
// auto
// ---------------------------------------------------------------------------------------------

/// returns the set of cut points that, per the model before this call, remain uncheckpointed
/// after it (used to derive the expectation for an immediate repeat)
#[allow(clippy::too_many_arguments)]
fn do_auto(
    it: &mut Interp,
    tid: &str,
    stride: Option<u64>,
    max_new: Option<u32>,
    dry_run: Option<bool>,
    step: usize,
    round: usize,
    carry: Option<PlanSet>,
    obs: &mut Obs,
) -> Option<PlanSet> {
    let checking = obs.is_some();
    let m = if checking { Some(model_of(&it.sandbox, tid)) } else { None };
    let before = if checking { it.sandbox.log_bytes() } else { Vec::new() };
    let res = it
        .live
        .store
        .compaction_auto_v1(
            tid,
            CompactionAutoV1Request { stride_messages: stride, max_new_checkpoints: max_new, dry_run, actor_id: "user".into(), origin: "cli".into() },
        )
        .map(|r| serde_json::to_value(r).unwrap_or(Value::Null));
    let (rep, st) = obs.as_mut()?;
    let m = m?;
    let d = delta(&it.sandbox, tid, &before, m.frames.len());
    let sv = stride.unwrap_or(10_000);
    let maxn = max_new.unwrap_or(1).clamp(1, 32);
    let dry = dry_run.unwrap_or(false);
    let tag = if round == 0 { "auto" } else { "auto_repeat" };
    let ctx = json!({"step": step, "round": round, "thread": tid, "stride": stride, "max_new": max_new, "dry_run": dry_run, "message_count_model": m.n()});
    st.auto_calls += 1;
    if round > 0 {
        st.repeats += 1;
        st.nontrivial = true;
        rep.class("repeat");
    }
    rep.class(stride_class(stride, m.n()));
    if !d.prefix_ok {
        rep.fail(format!("{tag}|log_not_append_only"), ctx.clone());
        return None;
    }
    if d.log_lines != d.appended.len() {
        rep.fail(format!("{tag}|wrote_to_other_stream"), json!({"ctx": ctx, "log_lines": d.log_lines, "thread_frames": d.appended.len()}));
    }
    if sv == 0 {
        if !matches!(&res, Err(e) if e.contains("invalid_stride")) || d.bytes != 0 {
            rep.fail(format!("{tag}|stride0"), json!({"ctx": ctx, "got": format!("{res:?}"), "bytes": d.bytes}));
        }
        return None;
    }
    let v = match res {
        Ok(v) => v,
        Err(e) => {
            rep.fail(format!("{tag}|unexpected_error"), json!({"ctx": ctx, "error": e, "bytes": d.bytes}));
            return None;
        }
    };
    let plan = m.plan(sv, maxn);
    let want = plan_set(&plan);
    if plan.len() >= 32 {
        rep.class("plan_len_32");
        rep.count("calls_with_plan_len_32", 1);
    }
    // expectation for a repeat, derived from the model BEFORE the previous round
    if let Some(c) = &carry {
        let exp: PlanSet = c.clone();
        if exp != want {
            rep.fail(
                "idempotence|repeat_plan_not_the_remaining_cuts".to_string(),
                json!({"ctx": ctx, "remaining_per_previous_model": exp, "plan_from_new_truth": want}),
            );
        }
    }
    if !AUTO_STATUS_DOC.contains(&s(&v, "status")) {
        rep.fail(format!("{tag}|status_undocumented"), json!({"ctx": ctx, "status": v["status"]}));
    }
    if s(&v, "thread_id") != tid
        || u(&v, "stride_messages") != Some(sv)
        || u(&v, "message_count") != Some(m.n())
        || s(&v, "cut_rule_id") != format!("stride_messages_v1/{sv}")
    {
        rep.fail(format!("{tag}|echo_fields"), json!({"ctx": ctx, "response": v}));
    }
    if plan_set_of_value(&v["planned"]).as_ref() != Some(&want) {
        rep.fail(format!("{tag}|planned_mismatch"), json!({"ctx": ctx, "planned": v["planned"], "planned_model": plan_json(&plan)}));
    }
    // what stays uncheckpointed after this call, per the model before it
    let all_open: Vec<Cut> = m.cuts(sv, 32).into_iter().filter(|c| !c.already).collect();
    let remaining_after: PlanSet = if dry {
        want.clone()
    } else {
        plan_set(&all_open.iter().skip(plan.len()).take(maxn as usize).cloned().collect::<Vec<_>>())
    };
    if dry || plan.is_empty() {
        let what = if dry { "dry_run" } else { "noop" };
        rep.class(what);
        if dry && !plan.is_empty() {
            st.auto_nonempty += 1;
            rep.class("dry_run_with_plan");
        }
        if d.bytes != 0 {
            rep.fail(format!("{tag}|{what}_wrote"), json!({"ctx": ctx, "bytes": d.bytes, "appended_types": types_of(&d.appended)}));
        }
        if plan.is_empty() && s(&v, "status") != "noop" {
            rep.fail(format!("{tag}|empty_plan_not_noop"), json!({"ctx": ctx, "response": v}));
        }
        if dry && matches!(s(&v, "status"), "completed" | "spawned" | "failed") {
            rep.fail(format!("{tag}|dry_run_status"), json!({"ctx": ctx, "response": v}));
        }
        if v["job_id"] != Value::Null || v["result"].as_array().map(|a| !a.is_empty()).unwrap_or(true) {
            rep.fail(format!("{tag}|{what}_job_or_result"), json!({"ctx": ctx, "response": v}));
        }
        if round > 0 && plan.is_empty() {
            rep.class("repeat_noop");
        }
        return Some(remaining_after);
    }
    // executed
    st.auto_nonempty += 1;
    st.mutations += 1;
    st.nontrivial = true;
    if round > 0 {
        rep.class("repeat_more_work");
    }
    if s(&v, "status") != "completed" {
        rep.fail(format!("{tag}|status_not_completed"), json!({"ctx": ctx, "response": v, "appended_types": types_of(&d.appended)}));
    }
    let cks = check_job_frames(&it.sandbox, &m, &d.appended, &plan, sv, tag, &ctx, rep);
    st.auto_checkpoints += cks.len() as u64;
    if !d.appended.is_empty() && (f(&v, "job_id") != f(&d.appended[0], "job_id") || s(&v, "job_kind") != JOB_KIND) {
        rep.fail(format!("{tag}|response_job_id"), json!({"ctx": ctx, "response": v, "first_frame": d.appended[0]}));
    }
    if !cks.is_empty() || !d.appended.is_empty() {
        let got = result_set(v["result"].as_array().map(|a| a.as_slice()).unwrap_or(&[]));
        let ck_frames: Vec<Value> = d.appended.iter().filter(|fr| ty(fr) == T_CKPT).cloned().collect();
        if got != frames_result_set(&ck_frames) {
            rep.fail(format!("{tag}|response_result"), json!({"ctx": ctx, "result": v["result"], "checkpoint_frames": ck_frames}));
        }
    }
    probe(it, tid, sv, step, obs, tag);
    Some(remaining_after)
}

// ---------------------------------------------------------------------------------------------
// schedule
// ---------------------------------------------------------------------------------------------

#[allow(clippy::too_many_arguments)]
fn do_schedule(
    it: &mut Interp,
    tid: &str,
    stride: Option<u64>,
    max_new: Option<u32>,
    block: Option<bool>,
    execute: Option<bool>,
    dry_run: Option<bool>,
    step: usize,
    round: usize,
    obs: &mut Obs,
) {
    let checking = obs.is_some();
    let m = if checking { Some(model_of(&it.sandbox, tid)) } else { None };
    let before = if checking { it.sandbox.log_bytes() } else { Vec::new() };
    let res = it
        .live
        .store
        .compaction_auto_schedule_v1(
            tid,
            CompactionAutoScheduleV1Request {
                stride_messages: stride,
                max_new_checkpoints: max_new,
                block_on_inflight: block,
                execute,
                dry_run,
                actor_id: "user".into(),
                origin: "cli".into(),
            },
        )
        .map(|r| serde_json::to_value(r).unwrap_or(Value::Null));
    let Some((rep, st)) = obs.as_mut() else { return };
    let Some(m) = m else { return };
    let d = delta(&it.sandbox, tid, &before, m.frames.len());
    let sv = stride.unwrap_or(10_000);
    let maxn = max_new.unwrap_or(1).clamp(1, 32);
    let blk = block.unwrap_or(true);
    let exe = execute.unwrap_or(true);
    let dry = dry_run.unwrap_or(false);
    let tag = if round == 0 { "schedule" } else { "schedule_repeat" };
    let ctx = json!({"step": step, "round": round, "thread": tid, "stride": stride, "max_new": max_new, "block": block, "execute": execute, "dry_run": dry_run, "message_count_model": m.n()});
    st.sched_calls += 1;
    if round > 0 {
        st.repeats += 1;
        st.nontrivial = true;
        rep.class("repeat");
    }
    rep.class(stride_class(stride, m.n()));
    if !d.prefix_ok {
        rep.fail(format!("{tag}|log_not_append_only"), ctx.clone());
        return;
    }
    if d.log_lines != d.appended.len() {
        rep.fail(format!("{tag}|wrote_to_other_stream"), json!({"ctx": ctx, "log_lines": d.log_lines, "thread_frames": d.appended.len()}));
    }
    if sv == 0 {
        if !matches!(&res, Err(e) if e.contains("invalid_stride")) || d.bytes != 0 {
            rep.fail(format!("{tag}|stride0"), json!({"ctx": ctx, "got": format!("{res:?}"), "bytes": d.bytes}));
        }
        return;
    }
    let v = match res {
        Ok(v) => v,
        Err(e) => {
            rep.fail(format!("{tag}|unexpected_error"), json!({"ctx": ctx, "error": e, "bytes": d.bytes}));
            return;
        }
    };
    let plan = m.plan(sv, maxn);
    let want = plan_set(&plan);
    if plan.len() >= 32 {
        rep.class("plan_len_32");
        rep.count("calls_with_plan_len_32", 1);
    }
    let decision = s(&v, "decision").to_string();
    if decision == "dry_run" && dry {
        rep.count("schedule_decision_dry_run_not_in_documented_enum", 1);
    } else if !DECISIONS_DOC.contains(&decision.as_str()) {
        rep.fail(format!("{tag}|decision_undocumented"), json!({"ctx": ctx, "decision": decision}));
    }
    rep.class(format!("decision:{decision}"));
    if s(&v, "thread_id") != tid
        || u(&v, "stride_messages") != Some(sv)
        || u(&v, "max_new_checkpoints") != Some(maxn as u64)
        || v["block_on_inflight"] != json!(blk)
        || v["execute"] != json!(exe)
        || u(&v, "message_count") != Some(m.n())
        || s(&v, "cut_rule_id") != format!("stride_messages_v1/{sv}")
        || s(&v, "policy_id").is_empty()
    {
        rep.fail(format!("{tag}|echo_fields"), json!({"ctx": ctx, "response": v}));
    }
    if plan_set_of_value(&v["planned"]).as_ref() != Some(&want) {
        rep.fail(format!("{tag}|planned_mismatch"), json!({"ctx": ctx, "planned": v["planned"], "planned_model": plan_json(&plan)}));
    }
    if plan.is_empty() || dry {
        let what = if plan.is_empty() { "noop" } else { "dry_run" };
        if !plan.is_empty() {
            st.sched_nonempty += 1;
        }
        if d.bytes != 0 {
            rep.fail(format!("{tag}|{what}_wrote"), json!({"ctx": ctx, "bytes": d.bytes, "appended_types": types_of(&d.appended)}));
        }
        if plan.is_empty() && decision != "noop" {
            rep.fail(format!("{tag}|empty_plan_not_noop"), json!({"ctx": ctx, "response": v}));
        }
        if !plan.is_empty() && !matches!(decision.as_str(), "dry_run" | "noop") {
            rep.fail(format!("{tag}|dry_run_decision"), json!({"ctx": ctx, "response": v}));
        }
        if v["decision_id"] != Value::Null || v["job_id"] != Value::Null || v["result"].as_array().map(|a| !a.is_empty()).unwrap_or(true) {
            rep.fail(format!("{tag}|{what}_ids_or_result"), json!({"ctx": ctx, "response": v}));
        }
        if round > 0 && plan.is_empty() {
            rep.class("repeat_noop");
        }
        return;
    }
    // eligible work, not a dry run: a decision frame is appended
    st.sched_nonempty += 1;
    st.nontrivial = true;
    st.mutations += 1;
    let decided: Vec<&Value> = d.appended.iter().filter(|fr| ty(fr) == T_DECIDED).collect();
    if decided.len() != 1 {
        rep.fail(format!("{tag}|decision_frame_count"), json!({"ctx": ctx, "appended_types": types_of(&d.appended), "response": v}));
        return;
    }
    let df = decided[0];
    let job_frames: Vec<Value> = d.appended.iter().filter(|fr| ty(fr) != T_DECIDED).cloned().collect();
    let unfinished = m.unfinished_jobs();
    let frame_decision_expected = if decision == "skipped_inflight" { "skipped_inflight" } else { "scheduled" };
    let frame_ok = s(df, "decision") == frame_decision_expected
        && f(df, "decision_id") == f(&v, "decision_id")
        && s(df, "id") == s(df, "decision_id")
        && f(df, "policy_id") == f(&v, "policy_id")
        && u(df, "stride_messages") == Some(sv)
        && u(df, "max_new_checkpoints") == Some(maxn as u64)
        && df["block_on_inflight"] == json!(blk)
        && df["execute"] == json!(exe)
        && u(df, "message_count") == Some(m.n())
        && s(df, "cut_rule_id") == format!("stride_messages_v1/{sv}")
        && plan_set_of_value(f(df, "planned")).as_ref() == Some(&want)
        && f(df, "job_id") == f(&v, "job_id")
        && f(df, "job_kind") == f(&v, "job_kind");
    if !frame_ok || v["decision_id"] == Value::Null {
        rep.fail(format!("{tag}|decision_frame_vs_response"), json!({"ctx": ctx, "frame": df, "response": v, "planned_model": plan_json(&plan)}));
    }
    match decision.as_str() {
        "skipped_inflight" => {
            if !blk || unfinished.is_empty() {
                rep.fail(format!("{tag}|skipped_without_inflight_job"), json!({"ctx": ctx, "block": blk, "unfinished_jobs_in_truth": unfinished.len()}));
            }
            if !job_frames.is_empty() || v["job_id"] != Value::Null {
                rep.fail(format!("{tag}|skipped_but_job_frames"), json!({"ctx": ctx, "appended_types": types_of(&d.appended), "response": v}));
            }
            if let Some(r) = df.get("reason").and_then(|r| r.get("job_id")).and_then(|j| j.as_str()) {
                if !unfinished.iter().any(|(id, _)| id == r) {
                    rep.fail(format!("{tag}|skipped_reason_job_not_inflight"), json!({"ctx": ctx, "frame": df}));
                }
            }
        }
        "scheduled" | "completed" => {
            if blk && m.unfinished_in_window() {
                rep.fail(format!("{tag}|inflight_not_blocked"), json!({"ctx": ctx, "unfinished": unfinished, "response": v}));
            }
            if exe != (decision == "completed") {
                rep.fail(format!("{tag}|execute_vs_decision"), json!({"ctx": ctx, "response": v}));
            }
            if !exe {
                rep.class("execute_false");
                let ok = job_frames.len() == 1
                    && ty(&job_frames[0]) == T_SPAWNED
                    && s(&job_frames[0], "job_kind") == JOB_KIND
                    && f(&job_frames[0], "job_id") == f(&v, "job_id")
                    && v["job_id"] != Value::Null;
                if !ok {
                    rep.fail(format!("{tag}|execute_false_frames"), json!({"ctx": ctx, "appended_types": types_of(&d.appended), "response": v}));
                } else {
                    let details = f(&job_frames[0], "details");
                    if plan_set_of_value(f(details, "planned")).as_ref() != Some(&want) {
                        rep.fail(format!("{tag}|job_details"), json!({"ctx": ctx, "details": details}));
                    }
                }
                if v["result"].as_array().map(|a| !a.is_empty()).unwrap_or(true) {
                    rep.fail(format!("{tag}|execute_false_result"), json!({"ctx": ctx, "response": v}));
                }
            } else {
                let cks = check_job_frames(&it.sandbox, &m, &job_frames, &plan, sv, tag, &ctx, rep);
                st.auto_checkpoints += cks.len() as u64;
                if !job_frames.is_empty() && f(&v, "job_id") != f(&job_frames[0], "job_id") {
                    rep.fail(format!("{tag}|response_job_id"), json!({"ctx": ctx, "response": v}));
                }
                let got = result_set(v["result"].as_array().map(|a| a.as_slice()).unwrap_or(&[]));
                let ck_frames: Vec<Value> = job_frames.iter().filter(|fr| ty(fr) == T_CKPT).cloned().collect();
                if got != frames_result_set(&ck_frames) {
                    rep.fail(format!("{tag}|response_result"), json!({"ctx": ctx, "result": v["result"], "checkpoint_frames": ck_frames}));
                }
            }
        }
        other => {
            rep.fail(format!("{tag}|unexpected_decision"), json!({"ctx": ctx, "decision": other, "response": v, "appended_types": types_of(&d.appended)}));
        }
    }
    probe(it, tid, sv, step, obs, tag);
}

// ---------------------------------------------------------------------------------------------
// manual checkpoint
// ---------------------------------------------------------------------------------------------

enum ManualExpect {
    OkAt { seq: u64, id: String },
    OkStride { stride: u64 },
    Err(&'static str),
}

fn do_manual(it: &mut Interp, tid: &str, sel: &ManualSel, markdown: bool, step: usize, obs: &mut Obs) {
    // resolution needs the truth in both stores (A and B resolve identically)
    let m = model_of(&it.sandbox, tid);
    let n = m.n();
    let msg_at = |choice: u16| -> Option<(u64, String)> {
        if m.msgs.is_empty() { None } else { Some(m.msgs[pick(choice, m.msgs.len())].clone()) }
    };
    let unknown_id = "11111111-2222-4333-8444-555555555555".to_string();
    let mut on_checkpointed = false;
    let (to_message_id, to_seq, stride, mut expect): (Option<String>, Option<u64>, Option<u64>, ManualExpect) = match sel {
        ManualSel::Msg { choice } => match msg_at(*choice) {
            Some((seq, id)) => (Some(id.clone()), None, None, ManualExpect::OkAt { seq, id }),
            None => (Some(unknown_id), None, None, ManualExpect::Err("no_messages")),
        },
        ManualSel::SeqBoundary { choice } => match msg_at(*choice) {
            Some((seq, id)) => (None, Some(seq), None, ManualExpect::OkAt { seq, id }),
            None => (None, Some(0), None, ManualExpect::Err("no_messages")),
        },
        ManualSel::SeqOff { choice } => {
            let mut cands: Vec<u64> = m.non_message().into_iter().map(|(s, _)| s).collect();
            cands.push(m.head_seq().saturating_add(1));
            cands.push(u64::MAX);
            (None, Some(cands[pick(*choice, cands.len())]), None, ManualExpect::Err("seq_off_boundary"))
        }
        ManualSel::UnknownMsg => (Some(unknown_id), None, None, ManualExpect::Err("unknown_message_id")),
        ManualSel::NonMessageId { choice } => {
            let nm = m.non_message();
            let id = if nm.is_empty() { unknown_id } else { nm[pick(*choice, nm.len())].1.clone() };
            (Some(id), None, None, ManualExpect::Err("non_message_id"))
        }
        ManualSel::Both { choice } => match msg_at(*choice) {
            Some((seq, id)) => (Some(id), Some(seq), None, ManualExpect::Err("both_selectors")),
            None => (Some(unknown_id), Some(0), None, ManualExpect::Err("both_selectors")),
        },
        ManualSel::Stride { stride } => {
            let sv = stride.resolve(n).unwrap_or(10_000);
            let e = if sv == 0 {
                ManualExpect::Err("stride0")
            } else if n / sv == 0 {
                ManualExpect::Err("stride_not_reached")
            } else {
                ManualExpect::OkStride { stride: sv }
            };
            (None, None, stride.resolve(n), e)
        }
        ManualSel::OnCheckpointed { choice, by_seq } => {
            let seqs = m.checkpointed_seqs();
            let target = if seqs.is_empty() {
                msg_at(*choice)
            } else {
                on_checkpointed = true;
                let sq = seqs[pick(*choice, seqs.len())];
                m.msgs.iter().find(|(s, _)| *s == sq).cloned()
            };
            match target {
                Some((seq, id)) => {
                    if *by_seq { (None, Some(seq), None, ManualExpect::OkAt { seq, id }) } else { (Some(id.clone()), None, None, ManualExpect::OkAt { seq, id }) }
                }
                None => (Some(unknown_id), None, None, ManualExpect::Err("no_messages")),
            }
        }
        ManualSel::OnStrideCut { stride, choice, by_seq } => {
            let sv = stride.resolve(n).unwrap_or(10_000);
            let cuts = m.cuts(sv, 32);
            let target = if cuts.is_empty() {
                msg_at(*choice)
            } else {
                let c = &cuts[pick(*choice, cuts.len())];
                on_checkpointed = c.already;
                Some((c.to_seq, c.to_message_id.clone()))
            };
            match target {
                Some((seq, id)) => {
                    if *by_seq { (None, Some(seq), None, ManualExpect::OkAt { seq, id }) } else { (Some(id.clone()), None, None, ManualExpect::OkAt { seq, id }) }
                }
                None => (Some(unknown_id), None, None, ManualExpect::Err("no_messages")),
            }
        }
    };
    if !markdown {
        expect = ManualExpect::Err("no_summary");
    }
    let before = if obs.is_some() { it.sandbox.log_bytes() } else { Vec::new() };
    let res = it.live.store.compaction_checkpoint_cumulative_v1(
        tid,
        CompactionCheckpointCumulativeV1Request {
            summary_markdown: if markdown { Some(MANUAL_TEXT.to_string()) } else { None },
            summary_artifact_id: None,
            to_message_id: to_message_id.clone(),
            to_seq,
            stride_messages: stride,
            actor_id: "user".into(),
            origin: "cli".into(),
        },
    );
    let Some((rep, st)) = obs.as_mut() else { return };
    let d = delta(&it.sandbox, tid, &before, m.frames.len());
    let ctx = json!({"step": step, "thread": tid, "sel": sel, "to_message_id": to_message_id, "to_seq": to_seq, "stride": stride, "markdown": markdown, "message_count_model": n});
    if !d.prefix_ok {
        rep.fail("manual|log_not_append_only", ctx.clone());
        return;
    }
    match expect {
        ManualExpect::Err(kind) => {
            rep.class(format!("manual_err:{kind}"));
            if res.is_ok() {
                rep.fail(format!("manual|accepted|{kind}"), json!({"ctx": ctx, "result": format!("{res:?}"), "appended_types": types_of(&d.appended)}));
            }
            if d.bytes != 0 {
                rep.fail(format!("manual|error_but_wrote|{kind}"), json!({"ctx": ctx, "bytes": d.bytes, "appended_types": types_of(&d.appended)}));
            }
        }
        ManualExpect::OkAt { .. } | ManualExpect::OkStride { .. } => {
            let (ck_id, art, r_seq, r_mid, r_rule) = match res {
                Ok(t) => t,
                Err(e) => {
                    rep.fail("manual|rejected_valid_request", json!({"ctx": ctx, "error": e}));
                    return;
                }
            };
            st.mutations += 1;
            if d.appended.len() != 1 || ty(&d.appended[0]) != T_CKPT || d.log_lines != 1 {
                rep.fail("manual|frames_shape", json!({"ctx": ctx, "appended_types": types_of(&d.appended), "log_lines": d.log_lines}));
                return;
            }
            let ck = &d.appended[0];
            let (want_seq, want_id) = match &expect {
                ManualExpect::OkAt { seq, id } => {
                    rep.class("manual_ok");
                    (*seq, id.clone())
                }
                ManualExpect::OkStride { stride } => {
                    rep.class("manual_ok_stride");
                    // a stride checkpoint must sit on a stride cut point (k*stride-th message)
                    let ord = m.ordinal_of_seq(r_seq);
                    if ord.map(|o| o % stride != 0).unwrap_or(true) {
                        rep.fail("manual|stride_checkpoint_not_on_a_cut_point", json!({"ctx": ctx, "to_seq": r_seq, "ordinal": ord}));
                    }
                    match m.msgs.iter().find(|(s, _)| *s == r_seq) {
                        Some((s, id)) => (*s, id.clone()),
                        None => (r_seq, String::new()),
                    }
                }
                ManualExpect::Err(_) => unreachable!(),
            };
            if u(ck, "to_seq") != Some(want_seq) || s(ck, "to_message_id") != want_id || r_seq != want_seq || r_mid != want_id {
                rep.fail("manual|wrong_cut", json!({"ctx": ctx, "frame": ck, "want_seq": want_seq, "want_id": want_id, "response": [r_seq, r_mid]}));
            }
            if s(ck, "checkpoint_id") != ck_id || s(ck, "summary_artifact_id") != art || s(ck, "cut_rule_id") != r_rule {
                rep.fail("manual|frame_vs_response", json!({"ctx": ctx, "frame": ck, "response": [ck_id, art, r_rule]}));
            }
            for (part, dd) in checkpoint_problems(&it.sandbox, tid, &m.frames, ck) {
                rep.fail(format!("manual|checkpoint|{part}"), json!({"ctx": ctx, "frame": ck, "detail": dd}));
            }
            if let Ok(a) = read_artifact(&it.sandbox, &art) {
                if s(&a, "summary_markdown") != MANUAL_TEXT {
                    rep.fail("manual|summary_text_not_the_given_text", json!({"ctx": ctx, "artifact": a}));
                }
            }
            if on_checkpointed {
                st.manual_on_checkpointed += 1;
                st.nontrivial = true;
                rep.class("manual_on_checkpointed_cut");
            }
            // the cut now reports checkpointed with the NEW id (latest frame wins)
            if let Some(ord) = m.ordinal_of_seq(want_seq) {
                let m2 = model_of(&it.sandbox, tid);
                if m2.n() / ord <= 32 {
                    let r = it.live.store.compaction_cut_points_v1(tid, CompactionCutPointsV1Request { stride_messages: Some(ord), limit: Some(32) });
                    let hit = r.ok().and_then(|r| r.cut_points.into_iter().find(|c| c.target_message_ordinal == ord));
                    match hit {
                        Some(c) if c.already_checkpointed && c.latest_checkpoint_id.as_deref() == Some(ck_id.as_str()) && c.to_seq == want_seq => {}
                        other => rep.fail(
                            if on_checkpointed { "manual|latest_frame_does_not_win" } else { "manual|cut_not_reported_checkpointed" },
                            json!({"ctx": ctx, "new_checkpoint_id": ck_id, "cut_point": format!("{other:?}")}),
                        ),
                    }
                }
                probe(it, tid, ord, step, obs, "manual");
            }
        }
    }
}

// ---------------------------------------------------------------------------------------------
// end of case + determinism
// ---------------------------------------------------------------------------------------------

pub fn end_of_case(it: &Interp, rep: &mut CaseReport, _st: &mut RunState) {
    let values = match it.sandbox.truth_values() {
        Ok(v) => v,
        Err(e) => {
            rep.fail("truth|log_unreadable", json!({"error": e}));
            return;
        }
    };
    if let Err(e) = rv::store::check_stream_numbering(&values) {
        // C01's subject, but a compaction call that breaks numbering is worth a signal here too
        rep.fail("truth|stream_numbering", json!({"error": e}));
    }
    for t in &it.threads {
        let frames = frames_of(&it.sandbox.truth_thread(&t.id).unwrap_or_default());
        let (bad, _, _) = job_pairing(&frames);
        if !bad.is_empty() {
            rep.fail("jobs|pairing", json!({"thread": t.id, "problems": bad}));
        }
        let msgs = frames.iter().filter(|fr| ty(fr) == T_MSG).count();
        rep.class(match msgs {
            0..=4 => "msgs:0-4",
            5..=19 => "msgs:5-19",
            20..=60 => "msgs:20-60",
            _ => "msgs:>60",
        });
    }
}

/// id → role token, built from the truth of all threads (lookup only; never iterated)
fn id_tokens(it: &Interp) -> HashMap<String, String> {
    let mut map = HashMap::new();
    for (k, t) in it.threads.iter().enumerate() {
        map.insert(t.id.clone(), format!("<T{k}>"));
        let frames = frames_of(&it.sandbox.truth_thread(&t.id).unwrap_or_default());
        for (j, fr) in frames.iter().enumerate() {
            map.entry(s(fr, "id").to_string()).or_insert_with(|| format!("<E{k}.{j}>"));
            if ty(fr) == T_CKPT {
                map.entry(s(fr, "summary_artifact_id").to_string()).or_insert_with(|| format!("<A{k}.{j}>"));
            }
            if ty(fr) == T_SPAWNED {
                map.entry(s(fr, "job_id").to_string()).or_insert_with(|| format!("<J{k}.{j}>"));
            }
        }
    }
    map
}

fn is_hex(b: u8) -> bool {
    b.is_ascii_digit() || (b'a'..=b'f').contains(&b)
}

/// Replace every uuid-shaped (8-4-4-4-12) or 64-hex token that names a known id by its role token.
/// Unknown tokens (content-derived text) stay verbatim.
fn canonicalise(text: &str, map: &HashMap<String, String>) -> String {
    let b = text.as_bytes();
    let mut out = String::with_capacity(text.len());
    let mut i = 0;
    let mut last = 0;
    while i < b.len() {
        let boundary = i == 0 || !(is_hex(b[i - 1]) || b[i - 1] == b'-');
        if boundary && is_hex(b[i]) {
            let mut hit = None;
            if i + 36 <= b.len() {
                let w = &b[i..i + 36];
                let shape = w.iter().enumerate().all(|(p, c)| if [8, 13, 18, 23].contains(&p) { *c == b'-' } else { is_hex(*c) });
                let end_ok = i + 36 == b.len() || !(is_hex(b[i + 36]) || b[i + 36] == b'-');
                if shape && end_ok {
                    hit = Some(36);
                }
            }
            if hit.is_none() && i + 64 <= b.len() && b[i..i + 64].iter().all(|c| is_hex(*c)) && (i + 64 == b.len() || !is_hex(b[i + 64])) {
                hit = Some(64);
            }
            if let Some(len) = hit {
                if let Some(tok) = map.get(&text[i..i + len]) {
                    out.push_str(&text[last..i]);
                    out.push_str(tok);
                    i += len;
                    last = i;
                    continue;
                }
            }
        }
        i += 1;
    }
    out.push_str(&text[last..]);
    out
}

pub fn compare_stores(a: &Interp, b: &Interp, rep: &mut CaseReport, _st: &mut RunState) {
    if a.threads.len() != b.threads.len() {
        rep.fail("determinism|thread_count_differs", json!({"a": a.threads.len(), "b": b.threads.len()}));
        return;
    }
    let (ma, mb) = (id_tokens(a), id_tokens(b));
    let mut compared = 0u64;
    for (k, (ta, tb)) in a.threads.iter().zip(b.threads.iter()).enumerate() {
        let fa = frames_of(&a.sandbox.truth_thread(&ta.id).unwrap_or_default());
        let fb = frames_of(&b.sandbox.truth_thread(&tb.id).unwrap_or_default());
        if types_of(&fa) != types_of(&fb) {
            rep.fail("determinism|stream_shape_differs", json!({"thread_index": k, "a": types_of(&fa), "b": types_of(&fb)}));
            return;
        }
        for (j, (x, y)) in fa.iter().zip(fb.iter()).enumerate() {
            if ty(x) != T_CKPT {
                continue;
            }
            if u(x, "to_seq") != u(y, "to_seq") || s(x, "cut_rule_id") != s(y, "cut_rule_id") {
                rep.fail("determinism|checkpoint_cut_differs", json!({"thread_index": k, "frame_index": j, "a": x, "b": y}));
                continue;
            }
            let (Ok(aa), Ok(ab)) = (read_artifact(&a.sandbox, s(x, "summary_artifact_id")), read_artifact(&b.sandbox, s(y, "summary_artifact_id"))) else {
                continue; // readability is checked per call
            };
            let ca = canonicalise(s(&aa, "summary_markdown"), &ma);
            let cb = canonicalise(s(&ab, "summary_markdown"), &mb);
            compared += 1;
            if ca != cb {
                // first differing line for the report
                let diff = ca.lines().zip(cb.lines()).find(|(l, r)| l != r).map(|(l, r)| json!({"a": l, "b": r}));
                rep.fail(
                    "determinism|summary_text_differs",
                    json!({"thread_index": k, "frame_index": j, "to_seq": x["to_seq"], "first_differing_line": diff, "len_a": ca.len(), "len_b": cb.len()}),
                );
            }
            let base = |v: &Value, m: &HashMap<String, String>| v.get("basis").and_then(|b| b.get("base_summary_artifact_id")).and_then(|x| x.as_str()).map(|x| m.get(x).cloned().unwrap_or_else(|| "<unknown>".into()));
            if base(&aa, &ma) != base(&ab, &mb) {
                rep.fail("determinism|summary_basis_differs", json!({"thread_index": k, "frame_index": j, "a": base(&aa, &ma), "b": base(&ab, &mb)}));
            }
        }
    }
    rep.count("summaries_compared_across_stores", compared);
    rep.class("determinism_compared");
}


// ---------------------------------------------------------------------------------------------
// HTTP surface: POST /threads/{id}/compaction-auto on a byte copy of the final store. The handler
// plans and logs the spawn frame synchronously (202 + `planned`) and executes the job on the
// blocking pool; the same model and the same frame checks apply once job_ended is logged.
// ---------------------------------------------------------------------------------------------

thread_local! {
    static HTTP_RT: tokio::runtime::Runtime = rv::runs::runtime(2);
}

pub fn http_tail(it: &Interp, which: u16, stride: Option<u64>, max_new: Option<u32>, rep: &mut CaseReport, st: &mut RunState) {
    use axum::http::Method;
    let candidates: Vec<&str> = it.threads.iter().map(|t| t.id.as_str()).collect();
    if candidates.is_empty() {
        return;
    }
    let tid = candidates[rv::engine::pick(which, candidates.len())].to_string();
    let sb = it.sandbox.fork("c09http");
    let sv = stride.unwrap_or(10_000);
    let maxn = max_new.unwrap_or(1).clamp(1, 32);
    if sv == 0 {
        return;
    }
    HTTP_RT.with(|rt| {
        rt.block_on(async {
            let auth = rv::runs::Authority::on(sb, None);
            let sb = &auth.sandbox;
            for round in 0..2usize {
                let tag = if round == 0 { "http_auto" } else { "http_auto_repeat" };
                let m = model_of(sb, &tid);
                let before = sb.log_bytes();
                let mut body = json!({"actor_id": "user", "origin": "cli"});
                if let Some(s) = stride {
                    body["stride_messages"] = json!(s);
                }
                if let Some(n) = max_new {
                    body["max_new_checkpoints"] = json!(n);
                }
                let (status, v) = rv::http::call_json(&auth.router, Method::POST, &format!("/threads/{tid}/compaction-auto"), Some(body)).await;
                let ctx = json!({"round": round, "thread": tid, "stride": stride, "max_new": max_new, "http_status": status.as_u16(), "message_count_model": m.n()});
                let plan = m.plan(sv, maxn);
                let want = plan_set(&plan);
                rep.class(format!("{tag}:{}", status.as_u16()));
                if !status.is_success() {
                    rep.fail(format!("{tag}|unexpected_status"), json!({"ctx": ctx, "body": v}));
                    return;
                }
                if plan_set_of_value(&v["planned"]).as_ref() != Some(&want) {
                    rep.fail(format!("{tag}|planned_mismatch"), json!({"ctx": ctx, "planned": v["planned"], "planned_model": plan_json(&plan)}));
                }
                if plan.is_empty() {
                    tokio::time::sleep(std::time::Duration::from_millis(5)).await;
                    let d = delta(sb, &tid, &before, m.frames.len());
                    if d.bytes != 0 || s(&v, "status") != "noop" {
                        rep.fail(format!("{tag}|noop_wrote_or_status"), json!({"ctx": ctx, "bytes": d.bytes, "response": v}));
                    }
                    rep.class(format!("{tag}:noop"));
                    return;
                }
                if status.as_u16() != 202 || s(&v, "status") != "spawned" {
                    rep.fail(format!("{tag}|not_spawned"), json!({"ctx": ctx, "response": v}));
                    return;
                }
                let Some(job) = v["job_id"].as_str().map(|x| x.to_string()) else {
                    rep.fail(format!("{tag}|no_job_id"), json!({"ctx": ctx, "response": v}));
                    return;
                };
                let t0 = std::time::Instant::now();
                loop {
                    let ended = sb.truth_values().unwrap_or_default().iter().any(|fr| ty(fr) == T_ENDED && s(fr, "job_id") == job);
                    if ended {
                        break;
                    }
                    if t0.elapsed() > std::time::Duration::from_secs(30) {
                        rep.inconclusive("http_job_not_ended");
                        return;
                    }
                    tokio::time::sleep(std::time::Duration::from_millis(3)).await;
                }
                let d = delta(sb, &tid, &before, m.frames.len());
                if !d.prefix_ok {
                    rep.fail(format!("{tag}|log_not_append_only"), ctx.clone());
                    return;
                }
                if d.log_lines != d.appended.len() {
                    rep.fail(format!("{tag}|wrote_to_other_stream"), json!({"ctx": ctx, "log_lines": d.log_lines, "thread_frames": d.appended.len()}));
                }
                let cks = check_job_frames(sb, &m, &d.appended, &plan, sv, tag, &ctx, rep);
                st.auto_checkpoints += cks.len() as u64;
                st.nontrivial = true;
                if !d.appended.is_empty() && s(&d.appended[0], "job_id") != job {
                    rep.fail(format!("{tag}|response_job_id"), json!({"ctx": ctx, "response": v, "first_frame": d.appended[0]}));
                }
                rep.class(format!("{tag}:job_ran"));
            }
        });
    });
}
