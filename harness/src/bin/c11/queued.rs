// ---------------------------------------------------------------------------------------------
// group `queued_task_cancel` (included into c11.rs): a background task that is QUEUED behind a
// mutation in progress gets a cancel request. Whatever the runtime does with it — cancel it
// without running, or run it later — its command must not start while the holder is still in
// progress. The holder (a task, or a thread run's bash tool) waits for a release file the
// harness creates after the cancel had time to take effect (every command is given cwd ".": without a cwd
// argument a tool or task runs in the SERVER PROCESS's working directory, not in the workspace root); the verdict is the order of the
// markers both commands append to one file, never a clock.
// ---------------------------------------------------------------------------------------------

#[derive(Debug, Clone, Serialize, Deserialize)]
struct QCase {
    /// the holder is a task (false) or the bash tool of a thread run (true)
    holder_is_run: bool,
    /// queued tasks behind it (1-3), each: (use the `shell` alias, cancel it, cancel delay ms)
    queued: Vec<(bool, bool, u8)>,
    /// how long the holder stays in progress after the last cancel (ms)
    hold_ms: u8,
}

fn q_case_strategy() -> BoxedStrategy<QCase> {
    (any::<bool>(), proptest::collection::vec((any::<bool>(), proptest::bool::weighted(0.75), 0u8..40), 1..4), 60u8..200)
        .prop_map(|(holder_is_run, queued, hold_ms)| QCase { holder_is_run, queued, hold_ms })
        .boxed()
}

thread_local! {
    static QRT: tokio::runtime::Runtime = rv::runs::runtime(4);
}

fn run_queued(case: &QCase) -> CaseReport {
    let mut rep = CaseReport::new();
    QRT.with(|rt| {
        rt.block_on(async {
            let auth = Authority::new("c11q", None);
            let ws = auth.sandbox.ws.clone();
            let order = ws.join("order.log");
            let hold_cmd = "echo A_start >> order.log; while [ ! -e release ]; do sleep 0.01; done; echo A_end >> order.log";
            // ---- the holder
            let mut holder_sid: Option<String> = None;
            let mut holder_task: Option<String> = None;
            if case.holder_is_run {
                let Some(t) = auth.ensure_thread().await else {
                    rep.inconclusive("no_thread");
                    return;
                };
                let (_s, v) = auth.post_message(&t, &json!({"tool": "bash", "args": {"command": hold_cmd, "cwd": "."}}).to_string(), None).await;
                holder_sid = v["session_id"].as_str().map(|s| s.to_string());
            } else {
                let (_s, v) = call_json(&auth.router, Method::POST, "/tasks", Some(json!({"tool": "bash", "args": {"command": hold_cmd, "cwd": "."}, "execution_mode": "pipes"}))).await;
                holder_task = v["task_id"].as_str().map(|s| s.to_string());
            }
            let t0 = Instant::now();
            while !std::fs::read_to_string(&order).map(|s| s.contains("A_start")).unwrap_or(false) {
                if t0.elapsed() > Duration::from_secs(20) {
                    rep.inconclusive("holder_did_not_start");
                    let _ = std::fs::write(ws.join("release"), b"");
                    return;
                }
                tokio::time::sleep(Duration::from_millis(3)).await;
            }
            // ---- queued tasks behind it, some of them cancelled
            let mut ids: Vec<String> = Vec::new();
            for (k, (alias, _, _)) in case.queued.iter().enumerate() {
                let cmd = format!("echo B{k}_start >> order.log; echo B{k}_end >> order.log");
                let (_s, v) = call_json(&auth.router, Method::POST, "/tasks", Some(json!({"tool": if *alias { "shell" } else { "bash" }, "args": {"command": cmd, "cwd": "."}, "execution_mode": "pipes"}))).await;
                if let Some(id) = v["task_id"].as_str() {
                    ids.push(id.to_string());
                }
            }
            for (k, (_, cancel, delay)) in case.queued.iter().enumerate() {
                if *cancel {
                    if let Some(id) = ids.get(k) {
                        tokio::time::sleep(Duration::from_millis(*delay as u64)).await;
                        let (s, _) = call_json(&auth.router, Method::POST, &format!("/tasks/{id}/cancel"), Some(json!({"reason": "c11"}))).await;
                        rep.class(format!("cancel_queued_status:{}", s.as_u16()));
                    }
                }
            }
            tokio::time::sleep(Duration::from_millis(case.hold_ms as u64)).await;
            let _ = std::fs::write(ws.join("release"), b"");
            // ---- quiescence: holder and every queued task reach their end
            let t0 = Instant::now();
            loop {
                let frames = auth.sandbox.truth_values().unwrap_or_default();
                let task_done = |id: &str| frames.iter().any(|v| v["stream_id"] == id && v["type"] == "tool_task_status" && matches!(v["status"].as_str(), Some("exited") | Some("failed") | Some("cancelled")));
                let holder_done = match (&holder_sid, &holder_task) {
                    (Some(s), _) => frames.iter().any(|v| v["type"] == "continuity_run_ended" && v["run_session_id"] == s.as_str()),
                    (_, Some(t)) => task_done(t),
                    _ => true,
                };
                if holder_done && ids.iter().all(|i| task_done(i)) {
                    break;
                }
                if t0.elapsed() > Duration::from_secs(30) {
                    rep.inconclusive("not_quiescent");
                    return;
                }
                tokio::time::sleep(Duration::from_millis(5)).await;
            }
            tokio::time::sleep(Duration::from_millis(10)).await;
            // ---- verdict: marker order
            let text = std::fs::read_to_string(&order).unwrap_or_default();
            let lines: Vec<&str> = text.lines().collect();
            let a_start = lines.iter().position(|l| *l == "A_start");
            let a_end = lines.iter().position(|l| *l == "A_end");
            if let (Some(s), Some(e)) = (a_start, a_end) {
                let inside: Vec<&&str> = lines[s + 1..e].iter().collect();
                if !inside.is_empty() {
                    rep.fail("overlap|queued_task_ran_while_holder_in_progress", json!({"order": lines, "holder": if case.holder_is_run { "thread_run_bash" } else { "task" }, "queued": case.queued}));
                }
            } else {
                rep.inconclusive("holder_markers_missing");
            }
            // no two queued tasks interleave either
            for k in 0..case.queued.len() {
                let s = lines.iter().position(|l| *l == format!("B{k}_start"));
                let e = lines.iter().position(|l| *l == format!("B{k}_end"));
                if let (Some(s), Some(e)) = (s, e) {
                    if e != s + 1 {
                        rep.fail("overlap|queued_tasks_interleave", json!({"order": lines}));
                    }
                }
            }
            rep.count("queued_tasks_that_ran", lines.iter().filter(|l| l.starts_with('B') && l.ends_with("_start")).count() as u64);
            rep.class(if case.holder_is_run { "holder:thread_run_bash" } else { "holder:task" });
            rep.nontrivial = case.queued.iter().any(|q| q.1);
            let Authority { sandbox, router } = auth;
            drop(router);
            tokio::time::sleep(Duration::from_millis(5)).await;
            drop(sandbox);
        })
    });
    rep
}
