// ---------------------------------------------------------------------------------------------
// group 2a: four-way equality over continuity histories (included into c03.rs)
// ---------------------------------------------------------------------------------------------

#[derive(Debug, Clone, Serialize, Deserialize)]
struct HistCase {
    ops: Vec<Op>,
    /// cache loss while the authority keeps running: before step `.0` the full sidecar of the
    /// thread chosen by `.1` (or, with `.2`, the whole cache directory) is deleted. The raw
    /// sidecar FILE of an affected thread is no longer compared (what the appender leaves behind
    /// is C04's subject); what `replay_events` answers from it stays strict.
    #[serde(default)]
    lose: Vec<(u16, u16, bool)>,
    /// death of the authority between the log append of a frame and its cache appends, then a
    /// restart: when the step chosen here is a single-frame append, every file under the cache
    /// directory is put back to its image from before the step (what the disk holds when the process
    /// dies right after the log flush) and the store is reopened. Live subscriber, log and every
    /// replay must still hold the same frames; the raw sidecar file of that thread is no longer
    /// compared, and what `replay_events` answers from caches is compared again only once the thread
    /// has appended after the restart (until then the cache is knowingly behind: C04/C05's subject).
    #[serde(default)]
    crash: Vec<u16>,
}

fn dir_image(dir: &Path) -> BTreeMap<std::path::PathBuf, Vec<u8>> {
    let mut out = BTreeMap::new();
    if let Ok(rd) = std::fs::read_dir(dir) {
        for e in rd.flatten() {
            let p = e.path();
            if p.is_file() {
                if let Ok(b) = std::fs::read(&p) {
                    out.insert(p, b);
                }
            }
        }
    }
    out
}

fn restore_dir_image(dir: &Path, image: &BTreeMap<std::path::PathBuf, Vec<u8>>) {
    if let Ok(rd) = std::fs::read_dir(dir) {
        for e in rd.flatten() {
            let p = e.path();
            if p.is_file() && !image.contains_key(&p) {
                let _ = std::fs::remove_file(&p);
            }
        }
    }
    for (p, b) in image {
        if std::fs::read(p).ok().as_deref() != Some(b.as_slice()) {
            let _ = std::fs::write(p, b);
        }
    }
}

fn hist_case_strategy() -> BoxedStrategy<HistCase> {
    let w = OpWeights {
        branch: 4,
        restart: 3,
        checkpoint: 4,
        ..OpWeights::default()
    };
    let ops = prop_oneof![
        3 => ops_strategy(w, 24),
        2 => ops_strategy(w, 60),
    ];
    let lose = prop_oneof![
        3 => Just(Vec::new()),
        2 => proptest::collection::vec((any::<u16>(), any::<u16>(), proptest::bool::weighted(0.3)), 1..3),
    ];
    let crash = prop_oneof![
        3 => Just(Vec::new()),
        2 => proptest::collection::vec(any::<u16>(), 1..3),
    ];
    (ops, lose, crash).prop_map(|(ops, lose, crash)| HistCase { ops, lose, crash }).boxed()
}

/// ids of the full sidecars present: `<id>.jsonl` (index / filtered sidecars carry extra dots)
fn full_sidecar_ids(dir: &Path) -> Vec<String> {
    let mut out: Vec<String> = std::fs::read_dir(dir)
        .map(|rd| {
            rd.filter_map(|e| e.ok())
                .filter_map(|e| e.file_name().into_string().ok())
                .filter_map(|n| n.strip_suffix(".jsonl").map(|s| s.to_string()))
                .filter(|stem| !stem.contains('.'))
                .collect()
        })
        .unwrap_or_default();
    out.sort();
    out
}

/// every line of a JSONL file as a JSON value (own reader)
fn read_jsonl(path: &Path) -> Result<Vec<Value>, String> {
    let bytes = match std::fs::read(path) {
        Ok(b) => b,
        Err(e) if e.kind() == std::io::ErrorKind::NotFound => return Ok(Vec::new()),
        Err(e) => return Err(e.to_string()),
    };
    rv::store::parse_log_values(&bytes)
}

struct HistObs {
    /// frames received from the broadcast channel(s), per thread, segments concatenated
    live: BTreeMap<String, Vec<Value>>,
    lagged: bool,
    non_continuity_live: u64,
}

fn drain(rx: &mut tokio::sync::broadcast::Receiver<Event>, obs: &mut HistObs) {
    use tokio::sync::broadcast::error::TryRecvError;
    loop {
        match rx.try_recv() {
            Ok(ev) => {
                let v = serde_json::to_value(&ev).unwrap_or(Value::Null);
                if v["stream_kind"] != "continuity" {
                    obs.non_continuity_live += 1;
                }
                let id = v["stream_id"].as_str().unwrap_or("?").to_string();
                obs.live.entry(id).or_default().push(v);
            }
            Err(TryRecvError::Empty) | Err(TryRecvError::Closed) => return,
            Err(TryRecvError::Lagged(_)) => {
                obs.lagged = true;
            }
        }
    }
}

/// live == log and sidecar == log for every thread, both directions. Returns the per-thread log.
fn compare_live_sidecar_log(it: &Interp, obs: &HistObs, lost: &BTreeSet<String>, step: usize, op: &str, rep: &mut CaseReport) -> Option<BTreeMap<String, Vec<Value>>> {
    let truth = match it.sandbox.truth_values() {
        Ok(t) => t,
        Err(e) => {
            rep.fail("four_way|continuity|log_unparseable", json!({"step": step, "op": op, "error": e}));
            return None;
        }
    };
    let mut log: BTreeMap<String, Vec<Value>> = BTreeMap::new();
    for v in truth {
        if v["stream_kind"] == "continuity" {
            let id = v["stream_id"].as_str().unwrap_or("?").to_string();
            log.entry(id).or_default().push(v);
        } else {
            rep.fail("four_way|continuity|foreign_frame_in_log", json!({"step": step, "frame": excerpt(&v)}));
        }
    }
    let sidecars = full_sidecar_ids(&it.sandbox.streams_dir());
    let mut ids: BTreeSet<String> = log.keys().cloned().collect();
    ids.extend(obs.live.keys().cloned());
    ids.extend(sidecars.iter().cloned());
    let empty: Vec<Value> = Vec::new();
    for id in &ids {
        let l = log.get(id).unwrap_or(&empty);
        let live = obs.live.get(id).unwrap_or(&empty);
        if let Some((_, kind, detail)) = seq_diff(live, l) {
            // left = live, right = log
            rep.fail(format!("four_way|continuity|live_vs_log|{}", vs_log(kind)), json!({"step": step, "op": op, "thread": id, "diff": detail}));
        }
        if lost.contains(id) {
            continue;
        }
        match read_jsonl(&it.sandbox.streams_dir().join(format!("{id}.jsonl"))) {
            Ok(side) => {
                if let Some((_, kind, detail)) = seq_diff(&side, l) {
                    rep.fail(format!("four_way|continuity|sidecar_vs_log|{}", vs_log(kind)), json!({"step": step, "op": op, "thread": id, "diff": detail}));
                }
            }
            Err(e) => rep.fail("four_way|continuity|sidecar_unparseable", json!({"step": step, "op": op, "thread": id, "error": e})),
        }
    }
    Some(log)
}

fn run_history(case: &HistCase) -> CaseReport {
    let mut rep = CaseReport::new();
    let mut it = Interp::new("c03h");
    let mut rx = it.live.store.subscribe();
    let mut obs = HistObs { live: BTreeMap::new(), lagged: false, non_continuity_live: 0 };
    let mut failing = 0u64;
    let mut panicked = false;
    let mut lost: BTreeSet<String> = BTreeSet::new();
    let mut appended_after_loss = false;
    // threads whose caches a simulated death left one frame behind and that have not appended since
    let mut crashed_stale: BTreeMap<String, usize> = BTreeMap::new();
    let mut crashes = 0u64;
    for (i, op) in case.ops.iter().enumerate() {
        for (at, which, whole) in &case.lose {
            if rv::engine::pick(*at, case.ops.len()) != i {
                continue;
            }
            let dir = it.sandbox.streams_dir();
            let ids = full_sidecar_ids(&dir);
            if ids.is_empty() {
                continue;
            }
            if *whole {
                let _ = std::fs::remove_dir_all(&dir);
                lost.extend(ids);
                rep.class("lose:cache_dir");
            } else {
                let id = ids[rv::engine::pick(*which, ids.len())].clone();
                let _ = std::fs::remove_file(dir.join(format!("{id}.jsonl")));
                lost.insert(id);
                rep.class("lose:full_sidecar");
            }
        }
        let log_len = |it: &Interp| std::fs::metadata(it.sandbox.log_path()).map(|m| m.len()).unwrap_or(0);
        let frames_before = log_len(&it);
        let crash_here = case.crash.iter().any(|at| rv::engine::pick(*at, case.ops.len()) == i)
            && matches!(op.tag(), "msg" | "run_spawned" | "run_ended" | "selection_decided" | "context_compiled" | "cursor" | "side_effects");
        let caches_before = if crash_here { Some((dir_image(&it.sandbox.streams_dir()), it.sandbox.log_bytes())) } else { None };
        match catch(|| it.apply(op)) {
            Ok(r) => {
                if r.result.is_err() {
                    failing += 1;
                }
            }
            Err(_) => {
                // a crash inside an operation is not C03's subject; what was written so far must
                // still agree
                panicked = true;
                rep.class("op_panicked");
            }
        }
        drain(&mut rx, &mut obs);
        if matches!(op, Op::Restart) {
            // the store object was re-created: the old channel is closed (drained above)
            rx = it.live.store.subscribe();
        }
        if let Some((image, log_before)) = caches_before {
            let log_after = it.sandbox.log_bytes();
            let added = log_after.get(log_before.len()..).unwrap_or(&[]);
            // exactly one whole frame was appended: the death falls between its log flush and its cache appends
            if log_after.starts_with(&log_before) && added.iter().filter(|b| **b == b'\n').count() == 1 && added.last() == Some(&b'\n') {
                if let Ok(v) = serde_json::from_slice::<Value>(added) {
                    if v["stream_kind"] == "continuity" {
                        let id = v["stream_id"].as_str().unwrap_or("?").to_string();
                        restore_dir_image(&it.sandbox.streams_dir(), &image);
                        it.restart();
                        rx = it.live.store.subscribe();
                        let at_crash = rv::store::parse_log_values(&log_after)
                            .map(|all| all.iter().filter(|f| f["stream_kind"] == "continuity" && f["stream_id"] == id.as_str()).count())
                            .unwrap_or(0);
                        crashed_stale.insert(id.clone(), at_crash);
                        lost.insert(id);
                        crashes += 1;
                        rep.class("crash:between_log_and_cache_appends");
                    }
                }
            }
        }
        if obs.lagged {
            rep.inconclusive("broadcast_lagged");
            return rep;
        }
        if !lost.is_empty() && log_len(&it) > frames_before {
            appended_after_loss = true;
        }
        if let Some(log) = compare_live_sidecar_log(&it, &obs, &lost, i, op.tag(), &mut rep) {
            // a thread that appended after the restart has reconciled its caches with the log
            crashed_stale.retain(|id, at_crash| log.get(id).map(|l| l.len()).unwrap_or(0) <= *at_crash);
        }
        if panicked || !rep.ok() {
            break;
        }
    }
    rep.class_if(crashes > 0 && crashed_stale.is_empty(), "crash:thread_appended_after_restart");
    if obs.non_continuity_live > 0 {
        rep.fail("four_way|continuity|foreign_frame_live", json!({"count": obs.non_continuity_live}));
    }

    // final: every read path against the raw log (sidecar files were compared BEFORE any
    // replay_events call, which may rebuild them)
    let log = compare_live_sidecar_log(&it, &obs, &lost, case.ops.len(), "end", &mut rep).unwrap_or_default();
    rep.class_if(appended_after_loss, "lose:appended_after_loss");
    let mut types: BTreeSet<String> = BTreeSet::new();
    let mut frames = 0u64;
    for (id, l) in &log {
        frames += l.len() as u64;
        for v in l {
            types.insert(v["type"].as_str().unwrap_or("?").to_string());
        }
        if panicked || crashed_stale.contains_key(id) {
            continue;
        }
        match catch(|| it.live.store.replay_events(id)) {
            Ok(Ok(evs)) => {
                if let Some((_, kind, detail)) = seq_diff(&events_to_values(&evs), l) {
                    rep.fail(format!("four_way|continuity|replay_events_vs_log|{}", vs_log(kind)), json!({"thread": id, "diff": detail}));
                }
            }
            Ok(Err(e)) => rep.fail("four_way|continuity|replay_events|error", json!({"thread": id, "error": e.to_string()})),
            Err(p) => rep.fail("four_way|continuity|replay_events|panic", json!({"thread": id, "panic": p})),
        }
    }
    // replay from disk by fresh objects (what a restarted authority sees)
    if let Ok(fresh_log) = EventLog::new(it.sandbox.log_path()) {
        match fresh_log.replay_validated() {
            Ok(all) => {
                let total: usize = log.values().map(|l| l.len()).sum();
                if all.len() != total {
                    rep.fail("four_way|continuity|replay_vs_log|count", json!({"replay": all.len(), "raw_lines": total}));
                }
            }
            Err(e) => rep.fail("four_way|continuity|replay_validated|error", json!({"error": e.to_string()})),
        }
        for (id, l) in &log {
            match fresh_log.replay_stream(StreamKind::Continuity, id) {
                Ok(evs) => {
                    if let Some((_, kind, detail)) = seq_diff(&events_to_values(&evs), l) {
                        rep.fail(format!("four_way|continuity|replay_stream_vs_log|{}", vs_log(kind)), json!({"thread": id, "diff": detail}));
                    }
                }
                Err(e) => rep.fail("four_way|continuity|replay_stream|error", json!({"thread": id, "error": e.to_string()})),
            }
        }
    }
    let sidecars_before = full_sidecar_ids(&it.sandbox.streams_dir());
    let reopened = it.sandbox.open();
    for (id, l) in &log {
        if crashed_stale.contains_key(id) {
            continue;
        }
        match catch(|| reopened.store.replay_events(id)) {
            Ok(Ok(evs)) => {
                if let Some((_, kind, detail)) = seq_diff(&events_to_values(&evs), l) {
                    rep.fail(format!("four_way|continuity|reopened_replay_events_vs_log|{}", vs_log(kind)), json!({"thread": id, "diff": detail}));
                }
            }
            Ok(Err(e)) => rep.fail("four_way|continuity|reopened_replay_events|error", json!({"thread": id, "error": e.to_string()})),
            Err(p) => rep.fail("four_way|continuity|reopened_replay_events|panic", json!({"thread": id, "panic": p})),
        }
    }
    // nothing extra: no sidecar for a thread the log does not know
    for id in &sidecars_before {
        if !log.contains_key(id) && !lost.contains(id) {
            rep.fail("four_way|continuity|sidecar_without_log_frames", json!({"thread": id}));
        }
    }

    rep.nontrivial = types.len() >= 3;
    rep.count("frames_compared", frames);
    rep.count("threads_compared", log.len() as u64);
    rep.class(match it.restarts {
        0 => "restarts:0",
        1 => "restarts:1",
        _ => "restarts:2+",
    });
    rep.class(match log.len() {
        0 | 1 => "threads:1",
        2 => "threads:2",
        _ => "threads:3+",
    });
    rep.class(match types.len() {
        0..=2 => "frame_types:1-2",
        3..=5 => "frame_types:3-5",
        _ => "frame_types:6+",
    });
    for t in &types {
        rep.class(format!("type:{t}"));
    }
    rep.class_if(failing > 0, "has_failing_op");
    rep.class_if(frames >= 40, "frames:40+");
    rep
}
