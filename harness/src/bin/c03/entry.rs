// ---------------------------------------------------------------------------------------------
// main (included into c03.rs)
// ---------------------------------------------------------------------------------------------

fn main() {
    let mut check = Check::new("C03", "exploration");
    check.assume("expected wire objects come from the table in harness/src/gen/frame.rs, written from docs/03_contracts/event_frames.md and the field lists (independent of the serde derive); canonical conventions: skip-optional fields omitted when absent, other optional fields null");
    check.assume("frames are compared as serde_json wire values (the comparison rip_log::compare_events uses); additionally the text written twice must be identical and a live SSE payload must equal the log line byte for byte (both are serde_json::to_string of the same frame; Value maps are ordered, no HashMap is involved)");
    check.assume("continuity histories are sequential (one caller); interleavings are C01/C06's subject. Session subscribers are opened before the input is sent (the history/live join is C06's subject). Waits (SSE idle 20 s, snapshot 20 s) only ever make a case inconclusive");
    check.assume(format!("known finding {SIG_DEPTH}: payloads whose line nests more than {JSON_MAX_NESTING} containers (snapshot: one less) are capped by construction and counted (excluded_known_depth*)"));
    check.assume(format!("known finding {SIG_FLOAT}: float leaves whose shortest text does not re-parse to the same double with the repository's serde_json build are replaced by the nearest fixpoint and counted (excluded_known_float)"));
    let explicit_replay = check.args.replay.is_some();
    let allow = Allow {
        depth: explicit_replay || check.known().matches(SIG_DEPTH).is_some(),
        float: explicit_replay || check.known().matches(SIG_FLOAT).is_some(),
    };
    if !allow.depth {
        check.note(format!("finding '{SIG_DEPTH}' is not registered in known_findings.json: the pinned reproducers under replays/known/C03 run capped until it is (replay them explicitly with --replay to see the violation)"));
    }
    if !allow.float {
        check.note(format!("finding '{SIG_FLOAT}' is not registered in known_findings.json: the pinned reproducers under replays/known/C03 run with floats replaced until it is (replay them explicitly with --replay to see the violation)"));
    }

    let n = check.cases(20_000, 500_000);
    check.group(
        "roundtrip",
        "case = 1-5 frames; each an expected wire object of one of all frame types (optional fields absent/present, empty collections, unicode, arbitrary JSON payloads depth<=4 with floats, chunks around 4/8 KiB) optionally patched with a 64 KiB-1 MiB string, a payload nested 100-135 deep, or exact doubles; seqs arbitrary or renumbered per stream. W -> Event -> text -> Event (value + text identity, independent wire expectation, stream assignment by three sources), EventLog append/replay/replay_stream, write/read/verify_snapshot. non-trivial = a frame with >=1 optional field present and >=1 absent, or payload depth >=3; distinct by case hash",
        GroupOpts { cases: n, ..Default::default() },
        rt_case_strategy,
        move |c: &RtCase| run_roundtrip(c, allow),
    );
    let n = check.cases(600, 15_000);
    check.group(
        "four_way",
        "case = generated continuity history (all operation kinds, failing ones, restarts, branch/handoff => several threads) with a broadcast subscriber from the start (re-subscribed after each restart); in 40 % of the cases the full sidecar of a thread (or the whole cache directory) is deleted at a generated step while the store object lives on - from then on that thread's raw sidecar FILE is not compared, the replay_events answers still are; after EVERY operation live == raw log == full sidecar per thread, at the end also replay_events, replay_stream and a reopened store. non-trivial = >=3 frame types in the log; distinct by case hash",
        GroupOpts { cases: n, ..Default::default() },
        hist_case_strategy,
        run_history,
    );
    let n = check.cases(90, 900);
    check.group(
        "four_way_sessions",
        "case = 1-3 session runs through the real router (kernel stub, tool envelopes write/ls/bash/read/unknown, checkpoint envelopes, scripted provider 1-2 turns with unicode text, one tool call, arbitrary JSON / deep / float payloads), sequential or overlapping; SSE subscriber opened before the input; SSE == raw log == snapshot file == read_snapshot == replay_stream, verify_snapshot Ok, no foreign snapshot/frames. non-trivial = >=3 frame types and >=1 session; distinct by case hash",
        GroupOpts { cases: n, watchdog_s: 300, max_shrink_iters: 32, ..Default::default() },
        sess_case_strategy,
        move |c: &SessCase| run_sessions(c, allow),
    );

    // the frame-type histogram of the roundtrip group must cover every type of the table
    let hist: BTreeMap<&str, u64> = specs().iter().enumerate().map(|(i, k)| (k.tag, TAG_COUNTS[i.min(63)].load(Ordering::Relaxed))).collect();
    let total: u64 = hist.values().sum();
    let missing: Vec<&str> = hist.iter().filter(|(_, n)| **n == 0).map(|(t, _)| *t).collect();
    check.extra("roundtrip_frames_by_type", json!(hist));
    check.extra("roundtrip_frame_types_in_table", json!(specs().len()));
    if total >= 5_000 && !missing.is_empty() {
        println!("INCONCLUSIVE property=C03: frame types never generated in roundtrip: {missing:?}");
        std::process::exit(2);
    }
    check.finish();
}
