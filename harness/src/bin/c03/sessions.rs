// ---------------------------------------------------------------------------------------------
// group 2b: four-way equality over session runs through the real router (included into c03.rs)
// ---------------------------------------------------------------------------------------------

const QUIESCE: Duration = Duration::from_secs(20);
const SEED_FILE: &str = "seed.txt";

thread_local! {
    /// runtime of the code under test (router, session tasks)
    static RT: tokio::runtime::Runtime = runtime(2);
    /// the scripted provider lives on its own runtime
    static PRT: tokio::runtime::Runtime = runtime(1);
}

#[derive(Debug, Clone, Serialize, Deserialize, PartialEq)]
#[serde(rename_all = "snake_case")]
enum CallTool {
    Write,
    Ls,
    BashEcho,
    ReadSeed,
    ReadMissing,
    Unknown,
}

#[derive(Debug, Clone, Serialize, Deserialize, PartialEq)]
struct Turn {
    /// output_text deltas
    text: Vec<String>,
    /// at most one function call
    call: Option<CallTool>,
    /// an event of an unknown type carrying this payload (ends up in provider_event.data / raw)
    extra: Option<Value>,
    /// an unknown-type event whose payload nests `x` this deep (recursion-limit region)
    #[serde(default)]
    deep: Option<usize>,
    /// an unknown-type event carrying this exact double (bit pattern)
    #[serde(default)]
    float_bits: Option<u64>,
    cuts: Vec<u16>,
}

#[derive(Debug, Clone, Serialize, Deserialize, PartialEq)]
#[serde(rename_all = "snake_case")]
enum SessInput {
    /// free text: kernel stub when no provider is configured, else a provider conversation
    Prompt { text: String, turns: Vec<Turn> },
    Write { content: String, append: bool },
    Ls,
    BashEcho { word: String },
    ReadSeed,
    ReadMissing,
    UnknownTool { args: Value },
    CheckpointCreate { label: String },
    CheckpointRewindUnknown,
}

#[derive(Debug, Clone, Serialize, Deserialize)]
struct SessCase {
    provider: bool,
    sessions: Vec<SessInput>,
    /// all subscribers opened and all inputs sent before any stream is read
    parallel: bool,
    #[serde(default)]
    allow_known: bool,
}

fn turn_s() -> BoxedStrategy<Turn> {
    let small = || {
        prop_oneof![
            6 => "[a-z ]{1,16}".prop_map(|s| s),
            3 => text(12),
            1 => Just(String::new()),
        ]
    };
    let call = prop_oneof![
        3 => Just(None),
        2 => Just(Some(CallTool::Write)),
        1 => Just(Some(CallTool::Ls)),
        1 => Just(Some(CallTool::BashEcho)),
        1 => Just(Some(CallTool::ReadSeed)),
        1 => Just(Some(CallTool::ReadMissing)),
        1 => Just(Some(CallTool::Unknown)),
    ];
    let extra = prop_oneof![
        2 => Just(None),
        1 => rv::gen::json::value(JsonOpts { depth: 3, floats: false, max_len: 3 }).prop_map(Some),
    ];
    let deep_s = prop_oneof![
        8 => Just(None),
        1 => (118usize..=128).prop_map(Some),
    ];
    let fl = prop_oneof![
        4 => Just(None),
        1 => float_bits_s().prop_map(Some),
    ];
    (
        proptest::collection::vec(small(), 0..3),
        call,
        extra,
        deep_s,
        fl,
        prop_oneof![2 => Just(Vec::new()), 3 => proptest::collection::vec(any::<u16>(), 1..4)],
    )
        .prop_map(|(text, call, extra, deep, float_bits, cuts)| Turn { text, call, extra, deep, float_bits, cuts })
        .boxed()
}

fn sess_input_s() -> BoxedStrategy<SessInput> {
    let prompt_text = prop_oneof![
        5 => "[a-z ]{1,20}".prop_map(|s| s),
        3 => text(24),
        1 => "[a-z]{3}".prop_map(|w| w.repeat(4000)),
    ];
    prop_oneof![
        8 => (prompt_text, proptest::collection::vec(turn_s(), 1..=2)).prop_map(|(text, turns)| SessInput::Prompt { text, turns }),
        3 => (text(40), any::<bool>()).prop_map(|(content, append)| SessInput::Write { content, append }),
        2 => Just(SessInput::Ls),
        2 => "[a-z]{1,8}".prop_map(|word| SessInput::BashEcho { word }),
        1 => Just(SessInput::ReadSeed),
        1 => Just(SessInput::ReadMissing),
        1 => rv::gen::json::value(JsonOpts { depth: 3, floats: false, max_len: 3 }).prop_map(|args| SessInput::UnknownTool { args }),
        1 => "[a-z]{0,6}".prop_map(|label| SessInput::CheckpointCreate { label }),
        1 => Just(SessInput::CheckpointRewindUnknown),
    ]
    .boxed()
}

fn sess_case_strategy() -> BoxedStrategy<SessCase> {
    (
        prop::bool::weighted(0.65),
        prop_oneof![
            3 => proptest::collection::vec(sess_input_s(), 1),
            3 => proptest::collection::vec(sess_input_s(), 2),
            1 => proptest::collection::vec(sess_input_s(), 3),
        ],
        prop::bool::weighted(0.3),
    )
        .prop_map(|(provider, sessions, parallel)| SessCase { provider, sessions, parallel, allow_known: false })
        .boxed()
}

fn render_input(input: &SessInput, n: usize) -> String {
    match input {
        SessInput::Prompt { text, .. } => {
            if text.trim_start().starts_with('{') {
                format!("p {text}")
            } else {
                text.clone()
            }
        }
        SessInput::Write { content, append } => json!({"tool":"write","args":{"path": format!("w_{n}.txt"), "content": content, "append": append}}).to_string(),
        SessInput::Ls => json!({"tool":"ls","args":{}}).to_string(),
        SessInput::BashEcho { word } => json!({"tool":"bash","args":{"command": format!("echo {word}")}}).to_string(),
        SessInput::ReadSeed => json!({"tool":"read","args":{"path": SEED_FILE}}).to_string(),
        SessInput::ReadMissing => json!({"tool":"read","args":{"path":"missing.txt"}}).to_string(),
        SessInput::UnknownTool { args } => json!({"tool":"no_such_tool","args": args}).to_string(),
        SessInput::CheckpointCreate { label } => json!({"checkpoint":{"action":"create","label":label,"files":[SEED_FILE]}}).to_string(),
        SessInput::CheckpointRewindUnknown => json!({"checkpoint":{"action":"rewind","id":"nope"}}).to_string(),
    }
}

fn input_class(input: &SessInput, provider: bool) -> &'static str {
    match input {
        SessInput::Prompt { .. } if provider => "session:scripted_provider",
        SessInput::Prompt { .. } => "session:stub",
        SessInput::Write { .. } => "session:tool:write",
        SessInput::Ls => "session:tool:ls",
        SessInput::BashEcho { .. } => "session:tool:bash",
        SessInput::ReadSeed | SessInput::ReadMissing => "session:tool:read",
        SessInput::UnknownTool { .. } => "session:tool:unknown",
        SessInput::CheckpointCreate { .. } | SessInput::CheckpointRewindUnknown => "session:checkpoint",
    }
}

fn response_obj(id: &str, status: &str) -> Value {
    json!({
        "background": false, "completed_at": null, "created_at": 0, "error": null, "frequency_penalty": 0,
        "id": id, "incomplete_details": null, "instructions": null, "max_output_tokens": null,
        "max_tool_calls": null, "metadata": {}, "model": "fixture-model", "object": "response", "output": [],
        "parallel_tool_calls": false, "presence_penalty": 0, "previous_response_id": null,
        "prompt_cache_key": null, "reasoning": null, "safety_identifier": null, "service_tier": "",
        "status": status, "store": false, "temperature": 0, "text": {"format": {"type": "text"}},
        "tool_choice": "auto", "tools": [], "top_logprobs": 0, "top_p": 0, "truncation": "auto",
        "usage": null, "user": null
    })
}

/// A double delivered by the provider as text is parsed by the engine (X), written (text of X)
/// and read back (X1): the known float finding shows iff X1 != X.
fn float_stable_after_ingest(bits: u64) -> bool {
    let f = f64::from_bits(bits);
    if !f.is_finite() {
        return true;
    }
    match float_reparse(f) {
        Some(x) => float_is_fixpoint(x),
        None => true,
    }
}

/// nesting of the `x` member of the unknown-type event: the frame line nests depth + 2 containers
/// (envelope, data object); the snapshot one more
const DEEP_EVENT_LEVELS: usize = 2;

fn render_turn(turn: &Turn, k: usize, allow: Allow, rep: &mut CaseReport) -> Reply {
    let rid = format!("resp_{k}");
    let mut seqno: u64 = 0;
    let mut next = || {
        seqno += 1;
        seqno
    };
    let mut body = String::new();
    body.push_str(&sse_json(&json!({"type":"response.created","sequence_number":next(),"response":response_obj(&rid, "in_progress")})));
    for t in &turn.text {
        body.push_str(&sse_json(&json!({"type":"response.output_text.delta","sequence_number":next(),"item_id":"msg_1","output_index":0,"content_index":0,"delta":t,"logprobs":[]})));
    }
    if let Some(x) = &turn.extra {
        body.push_str(&sse_json(&json!({"type":"response.bogus_event","sequence_number":next(),"x":x})));
        rep.class("provider_payload:arbitrary_json");
    }
    if let Some(bits) = turn.float_bits {
        let f = f64::from_bits(bits);
        if f.is_finite() {
            if allow.float || float_stable_after_ingest(bits) {
                body.push_str(&sse_json(&json!({"type":"response.bogus_event","sequence_number":next(),"logprob":f})));
                rep.class("provider_payload:float");
            } else {
                rep.count("excluded_known_float", 1);
                rep.class("excluded:provider_float_dropped");
            }
        }
    }
    if let Some(depth) = turn.deep {
        // deepest value whose frame still survives log line AND snapshot
        let cap = JSON_MAX_NESTING - DEEP_EVENT_LEVELS - 1;
        let d = if allow.depth { depth } else { depth.min(cap) };
        if d != depth {
            rep.count("excluded_known_depth", 1);
            rep.class("excluded:provider_depth_capped");
        }
        rep.class(if d == cap { "provider_payload:deep_at_cap" } else if d < cap { "provider_payload:deep_below_cap" } else { "provider_payload:deep_over_cap" });
        body.push_str(&sse_json(&json!({"type":"response.bogus_event","sequence_number":next(),"x":deep(d, k % 2 == 0)})));
    }
    if let Some(tool) = &turn.call {
        let tag = format!("{k}");
        let (name, args): (&str, String) = match tool {
            CallTool::Write => ("write", json!({"path": format!("pw_{tag}.txt"), "content": format!("content {tag}")}).to_string()),
            CallTool::Ls => ("ls", json!({}).to_string()),
            CallTool::BashEcho => ("bash", json!({"command": format!("echo t{tag}")}).to_string()),
            CallTool::ReadSeed => ("read", json!({"path": SEED_FILE}).to_string()),
            CallTool::ReadMissing => ("read", json!({"path": "missing.txt"}).to_string()),
            CallTool::Unknown => ("no_such_tool", json!({"x": 1}).to_string()),
        };
        let item = |arguments: &str, status: &str| json!({"type":"function_call","id":format!("fc_{tag}"),"call_id":format!("call_{tag}"),"name":name,"arguments":arguments,"status":status});
        body.push_str(&sse_json(&json!({"type":"response.output_item.added","sequence_number":next(),"output_index":1,"item":item("", "in_progress")})));
        body.push_str(&sse_json(&json!({"type":"response.function_call_arguments.done","sequence_number":next(),"item_id":format!("fc_{tag}"),"output_index":1,"arguments":args})));
        body.push_str(&sse_json(&json!({"type":"response.output_item.done","sequence_number":next(),"output_index":1,"item":item(&args, "completed")})));
        rep.class("provider_turn:tool_call");
    }
    body.push_str(&sse_json(&json!({"type":"response.completed","sequence_number":next(),"response":response_obj(&rid, "completed")})));
    body.push_str(&sse_done());
    Reply::sse(partition(body.as_bytes(), &turn.cuts))
}

fn fallback_reply() -> Reply {
    let mut body = String::new();
    body.push_str(&sse_json(&json!({"type":"response.created","sequence_number":1,"response":response_obj("resp_fallback", "in_progress")})));
    body.push_str(&sse_json(&json!({"type":"response.output_text.delta","sequence_number":2,"item_id":"msg_1","output_index":0,"content_index":0,"delta":"fallback","logprobs":[]})));
    body.push_str(&sse_json(&json!({"type":"response.completed","sequence_number":3,"response":response_obj("resp_fallback", "completed")})));
    body.push_str(&sse_done());
    Reply::sse(vec![body.into_bytes()])
}

/// Open the SSE endpoint: when this returns the handler has run, i.e. the subscription exists.
async fn sse_open(router: &Router, path: &str) -> (StatusCode, BodyDataStream) {
    let req = Request::builder().method(Method::GET).uri(path).body(Body::empty()).expect("request");
    let resp = router.clone().oneshot(req).await.expect("router infallible");
    let status = resp.status();
    (status, resp.into_body().into_data_stream())
}

/// Payload texts until a `session_ended` frame; false = idle timeout / body end before it.
async fn sse_read_to_end(stream: &mut BodyDataStream, idle: Duration) -> (Vec<String>, bool) {
    let mut buf = String::new();
    loop {
        let complete = match buf.rfind("\n\n") {
            Some(i) => rv::http::sse_data_payloads(&buf[..i + 2]),
            None => Vec::new(),
        };
        if complete.last().map(|l| l.contains("\"type\":\"session_ended\"")).unwrap_or(false) {
            return (complete, true);
        }
        match tokio::time::timeout(idle, stream.next()).await {
            Ok(Some(Ok(chunk))) => buf.push_str(&String::from_utf8_lossy(&chunk)),
            _ => return (complete, false),
        }
    }
}

/// The snapshot file is complete when it parses as JSON (a prefix of an array never does).
/// None = timeout. A recursion-limit parse error also means "complete" (known depth region).
async fn wait_snapshot_complete(path: &Path, timeout: Duration) -> Option<Vec<u8>> {
    let t0 = Instant::now();
    let mut last_len = usize::MAX;
    let mut stable = 0;
    loop {
        if let Ok(bytes) = std::fs::read(path) {
            if !bytes.is_empty() {
                match serde_json::from_slice::<Value>(&bytes) {
                    Ok(_) => return Some(bytes),
                    Err(e) if is_recursion_err(&e.to_string()) => {
                        // cannot be parsed by this reader: complete when the size stopped changing
                        if bytes.len() == last_len {
                            stable += 1;
                            if stable >= 20 && bytes.ends_with(b"]") {
                                return Some(bytes);
                            }
                        } else {
                            stable = 0;
                            last_len = bytes.len();
                        }
                    }
                    Err(_) => {}
                }
            }
        }
        if t0.elapsed() > timeout {
            return None;
        }
        tokio::time::sleep(Duration::from_millis(3)).await;
    }
}

/// the surroundings of the first differing byte of two texts
fn text_diff_window(a: &str, b: &str) -> (String, String) {
    let at = a.bytes().zip(b.bytes()).position(|(x, y)| x != y).unwrap_or(a.len().min(b.len()));
    let win = |s: &str| -> String {
        let mut lo = at.saturating_sub(40);
        while !s.is_char_boundary(lo) {
            lo -= 1;
        }
        let mut hi = (at + 40).min(s.len());
        while !s.is_char_boundary(hi) {
            hi += 1;
        }
        s[lo..hi].to_string()
    };
    (win(a), win(b))
}

struct SessObs {
    sid: String,
    sse: Vec<String>,
    snapshot: Vec<u8>,
}

async fn drive_sessions(case: &SessCase, allow: Allow, rep: &mut CaseReport) -> Result<(Authority, Vec<SessObs>), String> {
    let mut script: Vec<Reply> = Vec::new();
    if case.provider {
        for s in &case.sessions {
            if let SessInput::Prompt { turns, .. } = s {
                for t in turns {
                    let k = script.len();
                    script.push(render_turn(t, k, allow, rep));
                }
            }
        }
    }
    let provider = if case.provider {
        let fallback = fallback_reply();
        let p = PRT
            .with(|prt| {
                let h = prt.handle().clone();
                std::thread::scope(|sc| sc.spawn(move || h.block_on(Provider::start(script, fallback))).join())
            })
            .map_err(|_| "provider_start_panicked".to_string())?;
        Some(p)
    } else {
        None
    };
    let sandbox = Sandbox::new("c03s");
    let _ = std::fs::write(sandbox.ws.join(SEED_FILE), b"seed line one\nseed line two\n");
    let auth = Authority::on(sandbox, provider.as_ref().map(|p| provider_config(p.endpoint())));

    let mut out: Vec<SessObs> = Vec::new();
    let mut open: Vec<(String, BodyDataStream)> = Vec::new();
    for (n, input) in case.sessions.iter().enumerate() {
        let sid = auth.create_session().await.ok_or("create_session_failed")?;
        let (status, stream) = sse_open(&auth.router, &format!("/sessions/{sid}/events")).await;
        if status != StatusCode::OK {
            return Err(format!("sse_open_status_{}", status.as_u16()));
        }
        let st = auth.send_input(&sid, &render_input(input, n)).await;
        if st != StatusCode::ACCEPTED {
            return Err(format!("send_input_status_{}", st.as_u16()));
        }
        open.push((sid, stream));
        if !case.parallel {
            let (sid, mut stream) = open.pop().unwrap();
            let obs = finish_session(&auth, sid, &mut stream).await?;
            out.push(obs);
        }
    }
    for (sid, mut stream) in open {
        let obs = finish_session(&auth, sid, &mut stream).await?;
        out.push(obs);
    }
    drop(provider);
    Ok((auth, out))
}

async fn finish_session(auth: &Authority, sid: String, stream: &mut BodyDataStream) -> Result<SessObs, String> {
    let (sse, ended) = sse_read_to_end(stream, QUIESCE).await;
    if !ended {
        return Err("sse_no_session_ended".to_string());
    }
    let path = auth.sandbox.data.join("snapshots").join(format!("{sid}.json"));
    let snapshot = wait_snapshot_complete(&path, QUIESCE).await.ok_or("snapshot_timeout")?;
    Ok(SessObs { sid, sse, snapshot })
}

fn run_sessions(case: &SessCase, allow: Allow) -> CaseReport {
    let mut rep = CaseReport::new();
    let allow = allow.for_case(case.allow_known);
    for s in &case.sessions {
        rep.class(input_class(s, case.provider));
    }
    rep.class(format!("sessions:{}", case.sessions.len()));
    rep.class_if(case.parallel && case.sessions.len() > 1, "parallel_sessions");
    let driven = RT.with(|rt| rt.block_on(drive_sessions(case, allow, &mut rep)));
    let (auth, obs) = match driven {
        Ok(x) => x,
        Err(why) => {
            rep.inconclusive(&why);
            return rep;
        }
    };
    // the raw log: (line text, value), own reader
    let log_bytes = auth.sandbox.log_bytes();
    let mut log_lines: Vec<(String, Value)> = Vec::new();
    if !log_bytes.is_empty() && !log_bytes.ends_with(b"\n") {
        rep.fail("four_way|session|log_no_final_newline", json!({}));
    }
    for (i, line) in log_bytes.split(|b| *b == b'\n').enumerate() {
        if line.is_empty() {
            continue;
        }
        match serde_json::from_slice::<Value>(line) {
            Ok(v) => log_lines.push((String::from_utf8_lossy(line).to_string(), v)),
            Err(e) => {
                let msg = e.to_string();
                if is_recursion_err(&msg) && allow.depth {
                    rep.fail(format!("{SIG_DEPTH}|session_e2e|log_line"), json!({"line": i, "error": msg, "line_bytes": line.len()}));
                } else {
                    rep.fail("four_way|session|log_unparseable", json!({"line": i, "error": msg}));
                }
                return rep;
            }
        }
    }
    let mut types: BTreeSet<String> = BTreeSet::new();
    let mut frames = 0u64;
    let log = EventLog::new(auth.sandbox.log_path());
    for o in &obs {
        let sid = o.sid.as_str();
        let l_text: Vec<&String> = log_lines.iter().filter(|(_, v)| v["stream_kind"] == "session" && v["stream_id"] == sid).map(|(t, _)| t).collect();
        let l: Vec<Value> = log_lines.iter().filter(|(_, v)| v["stream_kind"] == "session" && v["stream_id"] == sid).map(|(_, v)| v.clone()).collect();
        frames += l.len() as u64;
        for v in &l {
            types.insert(v["type"].as_str().unwrap_or("?").to_string());
        }
        // live (SSE) vs log
        let mut s_vals: Vec<Value> = Vec::new();
        for p in &o.sse {
            match serde_json::from_str::<Value>(p) {
                Ok(v) => s_vals.push(v),
                Err(e) => {
                    rep.fail("four_way|session|sse_payload_unparseable", json!({"session": sid, "error": e.to_string()}));
                }
            }
        }
        if let Some((_, kind, detail)) = seq_diff(&s_vals, &l) {
            rep.fail(format!("four_way|session|live_vs_log|{}", vs_log(kind)), json!({"session": sid, "diff": detail}));
        } else if o.sse.iter().zip(l_text.iter()).any(|(a, b)| a != *b) {
            rep.fail("four_way|session|live_vs_log|text_differs", json!({"session": sid}));
        }
        // snapshot file (independent reader) vs log
        match serde_json::from_slice::<Value>(&o.snapshot) {
            Ok(Value::Array(raw)) => {
                if let Some((_, kind, detail)) = seq_diff(&raw, &l) {
                    rep.fail(format!("four_way|session|snapshot_file_vs_log|{}", vs_log(kind)), json!({"session": sid, "diff": detail}));
                }
            }
            Ok(_) => rep.fail("four_way|session|snapshot_file|not_an_array", json!({"session": sid})),
            Err(e) => {
                if !(allow.depth && is_recursion_err(&e.to_string())) {
                    rep.fail("four_way|session|snapshot_file|unparseable", json!({"session": sid, "error": e.to_string()}));
                }
            }
        }
        let path = auth.sandbox.data.join("snapshots").join(format!("{sid}.json"));
        // read_snapshot vs log
        match read_snapshot(&path) {
            Ok(evs) => {
                if let Some((_, kind, detail)) = seq_diff(&events_to_values(&evs), &l) {
                    rep.fail(format!("four_way|session|read_snapshot_vs_log|{}", vs_log(kind)), json!({"session": sid, "diff": detail}));
                }
            }
            Err(e) => {
                let msg = e.to_string();
                if is_recursion_err(&msg) {
                    rep.fail(format!("{SIG_DEPTH}|session_e2e|read_snapshot"), json!({"session": sid, "error": msg}));
                } else {
                    rep.fail("four_way|session|read_snapshot|error", json!({"session": sid, "error": msg}));
                }
            }
        }
        if let Ok(log) = &log {
            match log.replay_stream(StreamKind::Session, sid) {
                Ok(evs) => {
                    if let Some((_, kind, detail)) = seq_diff(&events_to_values(&evs), &l) {
                        rep.fail(format!("four_way|session|replay_stream_vs_log|{}", vs_log(kind)), json!({"session": sid, "diff": detail}));
                    } else {
                        // what a re-served stream would carry: the same text the live subscriber got
                        for (i, (ev, line)) in evs.iter().zip(l_text.iter()).enumerate() {
                            let t = serde_json::to_string(ev).unwrap_or_default();
                            if &t != *line {
                                let a: Value = serde_json::from_str(&t).unwrap_or(Value::Null);
                                let has_float = {
                                    let mut x = a.clone();
                                    sanitize_floats(&mut x, false).0 > 0
                                };
                                if has_float {
                                    let (live_w, replayed_w) = text_diff_window(line, &t);
                                    rep.fail(format!("{SIG_FLOAT}|session_e2e|replayed_text"), json!({"session": sid, "index": i, "type": a["type"], "live": live_w, "replayed": replayed_w}));
                                } else {
                                    let (live_w, replayed_w) = text_diff_window(line, &t);
                                    rep.fail("four_way|session|replayed_text_differs", json!({"session": sid, "index": i, "type": a["type"], "live": live_w, "replayed": replayed_w}));
                                }
                                break;
                            }
                        }
                    }
                }
                Err(e) => {
                    let msg = e.to_string();
                    if is_recursion_err(&msg) {
                        rep.fail(format!("{SIG_DEPTH}|session_e2e|replay_stream"), json!({"session": sid, "error": msg}));
                    } else {
                        rep.fail("four_way|session|replay_stream|error", json!({"session": sid, "error": msg}));
                    }
                }
            }
            if let Err(e) = verify_snapshot(log, &path) {
                let msg = e.to_string();
                if is_recursion_err(&msg) {
                    rep.fail(format!("{SIG_DEPTH}|session_e2e|verify_snapshot"), json!({"session": sid, "error": msg}));
                } else {
                    rep.fail("four_way|session|verify_snapshot|rejected", json!({"session": sid, "error": msg}));
                }
            }
        }
    }
    // nothing extra: every snapshot file belongs to a session of this case; every session frame in
    // the log belongs to one of them
    let sids: BTreeSet<&str> = obs.iter().map(|o| o.sid.as_str()).collect();
    if let Ok(rd) = std::fs::read_dir(auth.sandbox.data.join("snapshots")) {
        for e in rd.filter_map(|e| e.ok()) {
            let name = e.file_name().to_string_lossy().to_string();
            if !name.strip_suffix(".json").map(|s| sids.contains(s)).unwrap_or(false) {
                rep.fail("four_way|session|unexpected_snapshot_file", json!({"file": name}));
            }
        }
    }
    for (_, v) in &log_lines {
        if v["stream_kind"] == "session" && !v["stream_id"].as_str().map(|s| sids.contains(s)).unwrap_or(false) {
            rep.fail("four_way|session|log_frame_of_unknown_session", json!({"frame": excerpt(v)}));
        }
    }
    rep.nontrivial = types.len() >= 3 && !obs.is_empty();
    rep.count("session_runs", obs.len() as u64);
    rep.count("frames_compared", frames);
    for t in &types {
        rep.class(format!("type:{t}"));
    }
    rep
}
