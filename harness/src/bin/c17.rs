//! C17 — captured process output is faithful; a task has one well-formed lifecycle.
//!
//! Commands are synthesised from a BYTE PLAN (per stream: a deterministic content function of
//! (kind, seed, total) cut into writes; writes of both streams merged in a generated order), so
//! the bytes the process writes to stdout / stderr are known by construction. Two surfaces:
//!
//! * group `task`: background pipes tasks through the real router (POST /tasks, SSE events,
//!   GET status, GET output pages, POST cancel at a generated moment), verdicts computed from the
//!   raw truth log, the artifact files on disk and the HTTP answers;
//! * group `fg`: the foreground `bash` / `shell` tool through `rip_tools::ToolRunner` with a
//!   registry built like rip-tools' own tests do, plus `artifact_fetch` page plans.
//!
//! Oracles come from the property statement, docs/03_contracts/modules/phase-2/03_tool_tasks.md
//! and docs/03_contracts/event_frames.md. Chunk boundaries (how the OS splits the pipe into
//! reads) are never part of a verdict.

use std::path::Path;
use std::sync::{Arc, Mutex};
use std::time::{Duration, Instant};

use axum::http::{Method, StatusCode};
use proptest::prelude::*;
use rip_tools::{register_builtin_tools, BuiltinToolConfig, ToolInvocation, ToolRegistry, ToolRunner};
use rv::engine::{mix, pick, CaseReport, Check, GroupOpts};
use rv::http::{call, call_json, sse_collect};
use rv::runs::{runtime, Authority};
use rv::store::{file_len, Sandbox};
use serde::{Deserialize, Serialize};
use serde_json::{json, Value};
use sha2::{Digest, Sha256};

// ---------------------------------------------------------------------------------------------
// Known findings (confirmed on the unchanged tree), excluded by construction and counted.
// A signature is *reported* when its flag is off, when a single file is replayed (--replay), or
// when the orchestrator listed it in known_findings.json; otherwise tolerated + counted.
// ---------------------------------------------------------------------------------------------

/// K1: `pump_output_stream` (ripd/src/tasks/pipes.rs) skips the `tool_task_output_delta` frame of
/// a read whose preview is empty (preview limit 0, or a read longer than the limit that starts
/// with bytes that are not valid UTF-8 within the limit). The bytes are stored, but no frame
/// references them: the ranges of the remaining frames have a hole / stop short of the end.
const EXCLUDE_KNOWN_EMPTY_PREVIEW_GAP: bool = false;
const SIG_GAP: &str = "range_gap|task_output_delta|frame_skipped_when_preview_empty";

/// K2: both range readers (`read_artifact_range`, `artifact_fetch`) decode the page lossily and
/// report `bytes` = bytes read; a multi-byte character cut by a page boundary comes back as
/// U+FFFD on both pages (the intended back-off to a character boundary in `truncate_utf8` can
/// never trigger because the buffer is never longer than `max_bytes`), so paging valid UTF-8 text
/// does not reproduce it.
const EXCLUDE_KNOWN_SPLIT_CHAR_PAGE: bool = false;
const SIG_SPLIT_TASK: &str = "page_text_lossy|task_output|multibyte_char_split_at_page_boundary";
const SIG_SPLIT_FETCH: &str = "page_text_lossy|artifact_fetch|multibyte_char_split_at_page_boundary";

#[derive(Debug, Clone, Copy)]
struct Strict {
    gap: bool,
    split: bool,
}

const KIND_ASCII: u8 = 0;
const KIND_MB: u8 = 1;
const KIND_BIN: u8 = 2;

const READ_SIZE: u64 = 8192;
const OUTPUT_EVENT_MAX: u64 = 8192;
/// never ask a range reader for more than this (both allocate `vec![0u8; max_bytes]` up front)
const PAGE_MAX: u32 = 1 << 20;
const SMALL_WRITE: usize = 256;
const AUTH_REUSE: u32 = 30;

// ---------------------------------------------------------------------------------------------
// Case
// ---------------------------------------------------------------------------------------------

#[derive(Debug, Clone, Serialize, Deserialize)]
struct StreamPlan {
    /// 0 ascii lines (LF and CRLF), 1 valid multi-byte text, 2 binary (invalid UTF-8)
    kind: u8,
    seed: u16,
    total: u32,
    /// write boundaries strictly inside (0,total)
    cuts: Vec<u32>,
}

#[derive(Debug, Clone, Serialize, Deserialize)]
enum Page {
    /// walk from offset 0, page sizes cycled, until the end of the stored output
    Seq { stream: u8, sizes: Vec<u32> },
    /// one random-access read at pick(off, stored+3)
    At { stream: u8, off: u16, max: u32 },
    /// no max_bytes parameter (the configured default applies)
    Default { stream: u8 },
}

#[derive(Debug, Clone, Serialize, Deserialize)]
struct Case {
    /// task | bash | shell
    surface: String,
    out: StreamPlan,
    err: StreamPlan,
    /// merge order of the writes: true = next stdout write
    order: Vec<bool>,
    /// write indices (choice) preceded by `sleep 0.01`
    pauses: Vec<u16>,
    /// write index (choice over 0..=n) preceded by `sleep 3` (cancel-while-running cases)
    hang: Option<u16>,
    exit: u8,
    /// per-call preview limit (`max_bytes`); None = configured default
    max_bytes: Option<u64>,
    /// artifact cap (`artifact_max_bytes`: per call for tasks, BuiltinToolConfig for the tool)
    cap: Option<u64>,
    /// none | immediately | after_running | after_output | after_exit   (task only)
    cancel: String,
    /// none | args_not_object | missing_command | bad_max_bytes | cwd_dotdot | cwd_abs |
    /// cwd_missing | unsupported_tool | command_not_found
    invalid: String,
    pages: Vec<Page>,
}

fn lcg(seed: u64) -> impl FnMut() -> u32 {
    let mut s = mix(seed ^ 0x5eed_c17c_17c1_7c17);
    move || {
        s = s.wrapping_mul(6364136223846793005).wrapping_add(1442695040888963407);
        (s >> 33) as u32
    }
}

/// The bytes a stream's process side writes, a pure function of the plan.
fn content(kind: u8, seed: u16, total: usize) -> Vec<u8> {
    let mut next = lcg(seed as u64 + 1 + ((kind as u64) << 20));
    let mut out = Vec::with_capacity(total + 4);
    match kind {
        KIND_ASCII => {
            while out.len() < total {
                let r = next();
                if r % 61 == 0 {
                    if r % 3 == 0 && out.len() + 2 <= total {
                        out.extend_from_slice(b"\r\n");
                    } else {
                        out.push(b'\n');
                    }
                } else {
                    out.push(0x20 + (r % 95) as u8);
                }
            }
        }
        KIND_MB => {
            const POOL: [&str; 10] = ["a", "é", "€", "😀", "\n", "z", "ß", "漢", "0", " "];
            while out.len() < total {
                let s = POOL[(next() % 10) as usize];
                if out.len() + s.len() <= total {
                    out.extend_from_slice(s.as_bytes());
                } else {
                    out.push(b'.');
                }
            }
        }
        _ => {
            while out.len() < total {
                out.push((next() >> 8) as u8);
            }
        }
    }
    out.truncate(total);
    out
}

struct Built {
    /// (fd, bytes) in emission order
    writes: Vec<(u8, Vec<u8>)>,
    exp: [Vec<u8>; 2],
    pauses: Vec<usize>,
    hang_at: Option<usize>,
}

fn slices(plan: &StreamPlan, data: &[u8]) -> Vec<Vec<u8>> {
    let total = data.len();
    let mut cuts: Vec<usize> = plan
        .cuts
        .iter()
        .map(|c| *c as usize)
        .filter(|c| *c > 0 && *c < total)
        .collect();
    cuts.sort_unstable();
    cuts.dedup();
    let mut out = Vec::new();
    let mut prev = 0;
    for c in cuts.into_iter().chain(std::iter::once(total)) {
        if c > prev {
            out.push(data[prev..c].to_vec());
        }
        prev = c;
    }
    out
}

fn build(case: &Case) -> Built {
    let exp_out = content(case.out.kind, case.out.seed, case.out.total as usize);
    let exp_err = content(case.err.kind, case.err.seed.wrapping_add(7919), case.err.total as usize);
    let mut a = slices(&case.out, &exp_out).into_iter().peekable();
    let mut b = slices(&case.err, &exp_err).into_iter().peekable();
    let mut writes = Vec::new();
    for take_out in &case.order {
        if *take_out {
            if let Some(w) = a.next() {
                writes.push((1u8, w));
            } else if let Some(w) = b.next() {
                writes.push((2u8, w));
            }
        } else if let Some(w) = b.next() {
            writes.push((2u8, w));
        } else if let Some(w) = a.next() {
            writes.push((1u8, w));
        }
    }
    for w in a {
        writes.push((1, w));
    }
    for w in b {
        writes.push((2, w));
    }
    let n = writes.len();
    let mut pauses: Vec<usize> = if n == 0 {
        Vec::new()
    } else {
        case.pauses.iter().map(|p| pick(*p, n)).collect()
    };
    pauses.sort_unstable();
    pauses.dedup();
    let hang_at = case.hang.map(|h| pick(h, n + 1));
    Built {
        writes,
        exp: [exp_out, exp_err],
        pauses,
        hang_at,
    }
}

/// The sh script writing exactly the plan: small writes as `printf` with octal escapes (one
/// write(2) by the shell itself), larger ones as `cat` of a file holding exactly those bytes.
fn render(b: &Built, dir: &Path, exit: u8) -> String {
    let mut lines: Vec<String> = Vec::new();
    for (j, (fd, bytes)) in b.writes.iter().enumerate() {
        if b.hang_at == Some(j) {
            lines.push("sleep 3".into());
        }
        if b.pauses.contains(&j) {
            lines.push("sleep 0.01".into());
        }
        let redir = if *fd == 2 { " >&2" } else { "" };
        if bytes.len() <= SMALL_WRITE {
            let mut s = String::with_capacity(bytes.len() * 4 + 16);
            s.push_str("printf '");
            for x in bytes {
                s.push_str(&format!("\\{:03o}", x));
            }
            s.push('\'');
            s.push_str(redir);
            lines.push(s);
        } else {
            let p = dir.join(format!("w{j}.bin"));
            std::fs::write(&p, bytes).expect("plan file");
            lines.push(format!("cat '{}'{}", p.display(), redir));
        }
    }
    if b.hang_at == Some(b.writes.len()) {
        lines.push("sleep 3".into());
    }
    lines.push(format!("exit {exit}"));
    lines.join("\n")
}

// ---------------------------------------------------------------------------------------------
// Strategy
// ---------------------------------------------------------------------------------------------

fn limit_s() -> BoxedStrategy<Option<u64>> {
    prop_oneof![
        3 => Just(None),
        2 => Just(Some(0u64)),
        1 => Just(Some(1)),
        1 => Just(Some(2)),
        1 => Just(Some(3)),
        1 => Just(Some(7)),
        2 => Just(Some(64)),
        2 => Just(Some(4096)),
        1 => Just(Some(8191)),
        2 => Just(Some(8192)),
        1 => Just(Some(8193)),
        1 => Just(Some(16384)),
        1 => Just(Some(65536)),
    ]
    .boxed()
}

fn cap_s() -> BoxedStrategy<Option<u64>> {
    prop_oneof![
        3 => Just(None),
        2 => Just(Some(0u64)),
        1 => Just(Some(1)),
        1 => Just(Some(7)),
        2 => Just(Some(4096)),
        2 => Just(Some(8192)),
        1 => Just(Some(8193)),
        2 => Just(Some(65536)),
    ]
    .boxed()
}

fn page_size_s() -> BoxedStrategy<u32> {
    prop_oneof![
        1 => Just(0u32),
        2 => Just(1),
        1 => Just(2),
        2 => Just(3),
        1 => Just(4),
        1 => Just(5),
        1 => Just(7),
        2 => Just(100),
        1 => Just(4095),
        2 => Just(4096),
        2 => Just(8192),
        1 => Just(8193),
        2 => Just(65536),
        1 => Just(PAGE_MAX),
    ]
    .boxed()
}

fn pages_s() -> BoxedStrategy<Vec<Page>> {
    let page = prop_oneof![
        4 => (0u8..2, proptest::collection::vec(page_size_s(), 1..4)).prop_map(|(stream, sizes)| Page::Seq { stream, sizes }),
        3 => (0u8..2, any::<u16>(), page_size_s()).prop_map(|(stream, off, max)| Page::At { stream, off, max }),
        1 => (0u8..2).prop_map(|stream| Page::Default { stream }),
    ];
    proptest::collection::vec(page, 1..4).boxed()
}

/// (anchor, delta) resolved against the limits of the case.
fn total_spec_s() -> BoxedStrategy<(u8, i32)> {
    let delta = prop_oneof![
        3 => Just(-1i32),
        4 => Just(0),
        3 => Just(1),
        1 => -9i32..10,
        1 => 10i32..900,
    ];
    (
        prop_oneof![
            2 => Just(0u8),  // 0
            1 => Just(1),    // small
            5 => Just(2),    // preview limit
            3 => Just(3),    // read size
            2 => Just(4),    // 2 x read size
            4 => Just(5),    // artifact cap
            1 => Just(6),    // pipe capacity
            2 => Just(7),    // preview limit + read size
            2 => Just(8),    // cap + read size
            1 => Just(9),    // 3 x read size + something
        ],
        delta,
    )
        .boxed()
}

fn resolve_total(spec: (u8, i32), m: Option<u64>, c: Option<u64>) -> u32 {
    let m_eff = m.unwrap_or(512 * 1024) as i64;
    let c_eff = c.unwrap_or(65536) as i64; // the default 16 MiB cap is never crossed in-process
    let base: i64 = match spec.0 {
        0 => 0,
        1 => 40,
        2 => m_eff,
        3 => 8192,
        4 => 16384,
        5 => c_eff,
        6 => 65536,
        7 => m_eff.min(70_000) + 8192,
        8 => c_eff + 8192,
        _ => 24576 + 300,
    };
    (base + spec.1 as i64).clamp(0, 600_000) as u32
}

fn stream_plan_s() -> BoxedStrategy<(u8, u16, (u8, i32), Vec<u16>)> {
    (
        prop_oneof![4 => Just(KIND_ASCII), 3 => Just(KIND_MB), 3 => Just(KIND_BIN)],
        any::<u16>(),
        total_spec_s(),
        proptest::collection::vec(any::<u16>(), 0..4),
    )
        .boxed()
}

fn mk_stream(raw: (u8, u16, (u8, i32), Vec<u16>), m: Option<u64>, c: Option<u64>, shrink_total: bool) -> StreamPlan {
    let (kind, seed, spec, cut_choices) = raw;
    let mut total = resolve_total(spec, m, c);
    if shrink_total {
        total = total.min(300);
    }
    let mut cuts: Vec<u32> = cut_choices
        .iter()
        .map(|c| pick(*c, total as usize + 1) as u32)
        .filter(|c| *c > 0 && *c < total)
        .collect();
    cuts.sort_unstable();
    cuts.dedup();
    StreamPlan { kind, seed, total, cuts }
}

fn case_strategy(task: bool) -> BoxedStrategy<Case> {
    let cancel = if task {
        prop_oneof![
            60 => Just("none"),
            8 => Just("immediately"),
            9 => Just("after_running"),
            15 => Just("after_output"),
            8 => Just("after_exit"),
        ]
        .boxed()
    } else {
        Just("none").boxed()
    };
    let invalid = prop_oneof![
        76 => Just("none"),
        3 => Just("args_not_object"),
        3 => Just("missing_command"),
        3 => Just("bad_max_bytes"),
        3 => Just("cwd_dotdot"),
        3 => Just("cwd_abs"),
        3 => Just("cwd_missing"),
        3 => Just("unsupported_tool"),
        3 => Just("command_not_found"),
    ];
    let surface = if task {
        prop_oneof![Just("task"), Just("task:shell")].boxed()
    } else {
        prop_oneof![2 => Just("bash"), 1 => Just("shell")].boxed()
    };
    (
        (surface, limit_s(), cap_s(), cancel, invalid),
        (stream_plan_s(), stream_plan_s(), prop::bool::weighted(0.35)),
        (
            proptest::collection::vec(any::<bool>(), 0..9),
            proptest::collection::vec(any::<u16>(), 0..3),
            any::<u16>(),
            prop::bool::weighted(0.8),
            prop_oneof![4 => Just(0u8), 2 => Just(1), 2 => Just(7), 1 => Just(255)],
        ),
        pages_s(),
    )
        .prop_map(
            |((surface, max_bytes, cap, cancel, invalid), (o, e, quiet_err), (order, pauses, hang, want_hang, exit), pages)| {
                let out = mk_stream(o, max_bytes, cap, false);
                // keep one stream small in a third of the cases (cost), both big otherwise
                let err = mk_stream(e, max_bytes, cap, quiet_err);
                let hang = if (cancel == "after_running" || cancel == "after_output") && want_hang {
                    Some(hang)
                } else {
                    None
                };
                Case {
                    surface: surface.to_string(),
                    out,
                    err,
                    order,
                    pauses,
                    hang,
                    exit,
                    max_bytes,
                    cap,
                    cancel: cancel.to_string(),
                    invalid: invalid.to_string(),
                    pages,
                }
            },
        )
        .boxed()
}

// ---------------------------------------------------------------------------------------------
// Shared helpers
// ---------------------------------------------------------------------------------------------

fn lossy(b: &[u8]) -> String {
    String::from_utf8_lossy(b).into_owned()
}

/// length of the longest prefix of `b` that is valid UTF-8
fn valid_prefix_len(b: &[u8]) -> usize {
    match std::str::from_utf8(b) {
        Ok(_) => b.len(),
        Err(e) => e.valid_up_to(),
    }
}

fn is_utf8(b: &[u8]) -> bool {
    std::str::from_utf8(b).is_ok()
}

fn sha_hex(b: &[u8]) -> String {
    hex::encode(Sha256::digest(b))
}

fn clip(s: &str) -> String {
    if s.len() <= 160 {
        s.to_string()
    } else {
        let mut cut = 160;
        while !s.is_char_boundary(cut) {
            cut -= 1;
        }
        format!("{}…[{} bytes]", &s[..cut], s.len())
    }
}

fn first_diff(a: &[u8], b: &[u8]) -> usize {
    a.iter().zip(b.iter()).position(|(x, y)| x != y).unwrap_or(a.len().min(b.len()))
}

fn rel_class(total: u64, limit: u64) -> &'static str {
    if total == 0 {
        "zero"
    } else if total + 1 == limit {
        "limit-1"
    } else if total == limit {
        "limit"
    } else if total == limit + 1 {
        "limit+1"
    } else if total < limit {
        "below"
    } else {
        "above"
    }
}

fn size_classes(rep: &mut CaseReport, case: &Case, l: u64, c: u64) {
    for t in [case.out.total as u64, case.err.total as u64] {
        rep.class(format!("preview:{}", rel_class(t, l)));
        rep.class(format!("read8k:{}", rel_class(t, READ_SIZE)));
        rep.class(format!("read16k:{}", rel_class(t, 2 * READ_SIZE)));
        rep.class(format!("cap:{}", rel_class(t, c)));
    }
    for p in [&case.out, &case.err] {
        if p.total > 0 {
            rep.class(match p.kind {
                KIND_ASCII => "content:ascii",
                KIND_MB => "content:multibyte",
                _ => "content:binary",
            });
        }
    }
    rep.class(format!("exit:{}", case.exit));
    rep.class(format!("max_bytes:{}", case.max_bytes.map(|v| v.to_string()).unwrap_or("default".into())));
    rep.class(format!("cap_arg:{}", case.cap.map(|v| v.to_string()).unwrap_or("default".into())));
}

fn interleaved(b: &Built) -> bool {
    let mut switches = 0;
    for w in b.writes.windows(2) {
        if w[0].0 != w[1].0 {
            switches += 1;
        }
    }
    switches >= 2
}

fn mb_split_across_writes(case: &Case, b: &Built) -> bool {
    let mut any = false;
    for (plan, exp) in [(&case.out, &b.exp[0]), (&case.err, &b.exp[1])] {
        if plan.kind != KIND_MB {
            continue;
        }
        if let Ok(s) = std::str::from_utf8(exp) {
            for c in &plan.cuts {
                if (*c as usize) < exp.len() && !s.is_char_boundary(*c as usize) {
                    any = true;
                }
            }
        }
    }
    any
}

/// Read a stored artifact that is expected to equal `want`. A mismatch is re-read after 200 ms;
/// if it still differs the file is polled for up to 10 s (on a loaded machine the detached
/// blocking write of tokio::fs::File was seen to land later than 200 ms): equal at any point =
/// transient (counted, reported, not a failure); still different after 10 s = persistent.
/// Returns (bytes, transient, length seen by the first read, slower than 200 ms)
fn read_stable(path: &Path, want: &[u8]) -> (Vec<u8>, bool, usize, bool) {
    let first = std::fs::read(path).unwrap_or_default();
    if first == want {
        let n = first.len();
        return (first, false, n, false);
    }
    std::thread::sleep(Duration::from_millis(200));
    let mut cur = std::fs::read(path).unwrap_or_default();
    if cur == want {
        return (cur, true, first.len(), false);
    }
    let t0 = Instant::now();
    while t0.elapsed() < Duration::from_secs(10) {
        std::thread::sleep(Duration::from_millis(100));
        cur = std::fs::read(path).unwrap_or_default();
        if cur == want {
            return (cur, true, first.len(), true);
        }
    }
    (cur, false, first.len(), false)
}

// ---------------------------------------------------------------------------------------------
// Paging oracle (GET /tasks/{id}/output and artifact_fetch)
// ---------------------------------------------------------------------------------------------

enum Target<'a> {
    Task { auth: &'a Authority, id: &'a str, stream: &'a str },
    Fetch { runner: &'a ToolRunner, id: &'a str },
}

impl Target<'_> {
    fn op(&self) -> &'static str {
        match self {
            Target::Task { .. } => "task_output",
            Target::Fetch { .. } => "artifact_fetch",
        }
    }
}

struct PageResp {
    content: String,
    offset: u64,
    bytes: u64,
    total: u64,
    truncated: bool,
}

async fn fetch_page(t: &Target<'_>, off: u64, max: Option<u32>) -> Result<PageResp, String> {
    match t {
        Target::Task { auth, id, stream } => {
            let mut path = format!("/tasks/{id}/output?stream={stream}&offset_bytes={off}");
            if let Some(m) = max {
                path.push_str(&format!("&max_bytes={m}"));
            }
            let (s, v) = call_json(&auth.router, Method::GET, &path, None).await;
            if s != StatusCode::OK {
                return Err(format!("status {s}"));
            }
            Ok(PageResp {
                content: v["content"].as_str().ok_or("no content")?.to_string(),
                offset: v["offset_bytes"].as_u64().ok_or("no offset_bytes")?,
                bytes: v["bytes"].as_u64().ok_or("no bytes")?,
                total: v["total_bytes"].as_u64().ok_or("no total_bytes")?,
                truncated: v["truncated"].as_bool().ok_or("no truncated")?,
            })
        }
        Target::Fetch { runner, id } => {
            let mut args = json!({"id": id, "offset_bytes": off});
            if let Some(m) = max {
                args["max_bytes"] = json!(m);
            }
            let mut seq = 0u64;
            let events = runner
                .run("c17-fetch", &mut seq, ToolInvocation { name: "artifact_fetch".into(), args, timeout_ms: None })
                .await;
            let evs: Vec<Value> = events.iter().filter_map(|e| serde_json::to_value(e).ok()).collect();
            let ended = evs.iter().find(|e| e["type"] == "tool_ended").ok_or("no tool_ended")?;
            if ended["exit_code"] != 0 {
                return Err(format!("exit_code {}", ended["exit_code"]));
            }
            let chunks: Vec<&str> = evs
                .iter()
                .filter(|e| e["type"] == "tool_stdout")
                .filter_map(|e| e["chunk"].as_str())
                .collect();
            if chunks.len() != 1 {
                return Err(format!("{} stdout chunks", chunks.len()));
            }
            let a = &ended["artifacts"];
            Ok(PageResp {
                content: chunks[0].to_string(),
                offset: a["offset_bytes"].as_u64().ok_or("no offset_bytes")?,
                bytes: a["bytes"].as_u64().ok_or("no bytes")?,
                total: a["total_bytes"].as_u64().ok_or("no total_bytes")?,
                truncated: a["truncated"].as_bool().ok_or("no truncated")?,
            })
        }
    }
}

/// Some(length of the valid prefix) when the stored bytes are UTF-8 text, possibly ending inside
/// a character (a prefix cut by the cap); None for binary output.
fn text_len(stored: &[u8]) -> Option<usize> {
    match std::str::from_utf8(stored) {
        Ok(_) => Some(stored.len()),
        Err(e) if e.error_len().is_none() => Some(e.valid_up_to()),
        Err(_) => None,
    }
}

/// `pos` is a character boundary of text whose valid prefix is `vp` bytes long
fn on_boundary(stored: &[u8], vp: usize, pos: usize) -> bool {
    pos >= stored.len() || pos == vp || (pos < vp && (stored[pos] as i8) >= -0x40)
}

/// One page against the stored bytes. Returns the number of bytes the page covers and whether
/// its content was compared exactly.
fn check_one_page(
    rep: &mut CaseReport,
    strict: Strict,
    op: &str,
    stored: &[u8],
    off: u64,
    max: u64,
    r: &PageResp,
) -> (u64, bool) {
    let len = stored.len() as u64;
    let want = max.min(len.saturating_sub(off));
    let got = r.bytes;
    let o = off.min(len) as usize;
    let tl = text_len(stored);
    let ctx = json!({"offset": off, "max_bytes": max, "stored_len": len,
        "got": {"offset": r.offset, "bytes": r.bytes, "total": r.total, "truncated": r.truncated, "content": clip(&r.content)}});
    if r.offset != off {
        rep.fail(format!("page_meta|{op}|offset_not_echoed"), ctx.clone());
    }
    if r.total != len {
        rep.fail(format!("page_meta|{op}|total_bytes_not_stored_length"), ctx.clone());
    }
    if got != want {
        // a reader may move the end of a page to a character boundary (back off, or add the
        // <= 3 bytes completing the character); any other count is wrong
        let legit = match tl {
            Some(vp) => {
                off + got <= len
                    && got.abs_diff(want) <= 3
                    && on_boundary(stored, vp, o)
                    && !on_boundary(stored, vp, o + want as usize)
                    && on_boundary(stored, vp, o + got as usize)
            }
            // binary output: a boundary-seeking reader cannot tell text from bytes; the same
            // slack is accepted as long as the page stays inside the stored output
            None => off + got <= len && got.abs_diff(want) <= 3 && (off + want < len || got > want),
        };
        if !legit {
            rep.fail(format!("page_bytes|{op}|bytes_not_min_of_max_and_remaining"), ctx.clone());
            return (got, false);
        }
        rep.count("pages_end_moved_to_char_boundary", 1);
    }
    if r.truncated != (off + got < len) {
        rep.fail(format!("page_meta|{op}|truncated_flag"), ctx.clone());
    }
    let slice = &stored[o..o + got as usize];
    rep.count("pages_checked", 1);
    let Some(vp) = tl else {
        // binary: `content` is a JSON string and cannot carry the bytes; byte counts only
        rep.count("pages_binary_counts_only", 1);
        return (got, false);
    };
    if !on_boundary(stored, vp, o) {
        // the requested offset lies inside a character (a random-access choice of the client, or
        // the consequence of the previous page's end in a walk): nothing exact can be returned
        rep.class("page:starts_inside_char");
        rep.count("pages_start_inside_char", 1);
        return (got, false);
    }
    if !on_boundary(stored, vp, o + got as usize) {
        rep.class("page:split_char");
        if strict.split {
            let sig = if op == "task_output" { SIG_SPLIT_TASK } else { SIG_SPLIT_FETCH };
            rep.fail(sig, json!({"ctx": ctx, "page_bytes": slice.len(),
                "why": "the page ends inside a multi-byte character of valid text: it is returned as U+FFFD and `bytes` does not back off to the character boundary, so the next page (offset + bytes) starts inside the character too"}));
        } else {
            rep.count("excluded_known_split_char_page", 1);
        }
        return (got, false);
    }
    // both ends on character boundaries (the very end of a cap-cut prefix may hold a partial
    // character: it can only come back as U+FFFD)
    let text_end = (o + got as usize).min(vp).max(o);
    let text = std::str::from_utf8(&stored[o..text_end]).unwrap_or("");
    let partial_tail = text_end < o + got as usize;
    let ok = if partial_tail {
        r.content.starts_with(text) && r.content[text.len()..].chars().all(|c| c == '\u{fffd}')
    } else {
        r.content == text
    };
    rep.count("pages_text_exact", 1);
    if !ok {
        rep.fail(
            format!("page_content|{op}|differs_from_stored_text"),
            json!({"ctx": ctx, "want": clip(text)}),
        );
    }
    (got, !partial_tail)
}

async fn run_pages(rep: &mut CaseReport, strict: Strict, t: &Target<'_>, stored: &[u8], pages: &[Page], stream_idx: u8) {
    let op = t.op();
    for p in pages {
        match p {
            Page::Seq { stream, sizes } if *stream == stream_idx => {
                rep.class("paged:sequential");
                let mut off = 0u64;
                let mut text = String::new();
                let mut all_exact = true;
                let mut i = 0usize;
                let mut sum = 0u64;
                loop {
                    let max = if i < 48 && !sizes.is_empty() { sizes[i % sizes.len()] } else { PAGE_MAX };
                    let r = match fetch_page(t, off, Some(max)).await {
                        Ok(r) => r,
                        Err(e) => {
                            rep.fail(format!("page_error|{op}|sequential_read_failed"), json!({"offset": off, "max_bytes": max, "error": e}));
                            return;
                        }
                    };
                    let before = rep.fails.len();
                    let (got, exact) = check_one_page(rep, strict, op, stored, off, max as u64, &r);
                    if rep.fails.len() != before {
                        return;
                    }
                    all_exact &= exact || got == 0;
                    text.push_str(&r.content);
                    if got == 0 && max > 0 && off < stored.len() as u64 {
                        // a reader that backs off to a character boundary cannot advance with a
                        // page smaller than the character: not a defect for max_bytes < 4
                        if max < 4 {
                            rep.count("page_walk_stuck_on_tiny_page", 1);
                            i = i.max(48);
                            continue;
                        }
                        rep.fail(format!("page_progress|{op}|no_bytes_before_end_of_stored_output"), json!({"offset": off, "max_bytes": max}));
                        return;
                    }
                    off += got;
                    sum += got;
                    i += 1;
                    if (off >= stored.len() as u64 && max > 0) || i > 60 {
                        break;
                    }
                }
                if sum != stored.len() as u64 {
                    rep.fail(format!("page_sum|{op}|pages_do_not_cover_stored_output"), json!({"sum": sum, "stored": stored.len()}));
                }
                if all_exact && text.as_bytes() != stored {
                    rep.fail(format!("page_concat|{op}|concatenated_pages_differ_from_stored_text"),
                        json!({"first_diff": first_diff(text.as_bytes(), stored)}));
                }
                rep.count("page_walks", 1);
            }
            Page::At { stream, off, max } if *stream == stream_idx => {
                rep.class("paged:random_access");
                let o = pick(*off, stored.len() + 3) as u64;
                match fetch_page(t, o, Some(*max)).await {
                    Ok(r) => {
                        let _ = check_one_page(rep, strict, op, stored, o, *max as u64, &r);
                    }
                    Err(e) => rep.fail(format!("page_error|{op}|random_access_read_failed"), json!({"offset": o, "max_bytes": max, "error": e})),
                }
            }
            Page::Default { stream } if *stream == stream_idx => {
                rep.class("paged:default_max");
                match fetch_page(t, 0, None).await {
                    Ok(r) => {
                        // default max_bytes = configured preview limit (512 KiB) >= anything stored here
                        // except the rare > 512 KiB outputs: compare against the answer's own count
                        let max = if (stored.len() as u64) <= 512 * 1024 { 512 * 1024 } else { r.bytes };
                        let _ = check_one_page(rep, strict, op, stored, 0, max, &r);
                    }
                    Err(e) => rep.fail(format!("page_error|{op}|default_read_failed"), json!({"error": e})),
                }
            }
            _ => {}
        }
    }
}

// ---------------------------------------------------------------------------------------------
// Group `task`
// ---------------------------------------------------------------------------------------------

struct Ctx {
    rt: tokio::runtime::Runtime,
    auth: Option<Authority>,
    uses: u32,
}

static POOL: Mutex<Vec<Ctx>> = Mutex::new(Vec::new());

fn with_ctx<R>(f: impl FnOnce(&mut Ctx) -> R) -> R {
    let popped = POOL.lock().unwrap().pop();
    let mut ctx = popped.unwrap_or_else(|| Ctx { rt: runtime(2), auth: None, uses: 0 });
    let r = f(&mut ctx);
    POOL.lock().unwrap().push(ctx);
    r
}

fn is_terminal(v: &Value) -> bool {
    v["type"] == "tool_task_status" && matches!(v["status"].as_str(), Some("exited") | Some("cancelled") | Some("failed"))
}

/// Complete lines of the truth log after byte `from`, restricted to one task stream.
fn task_frames(auth: &Authority, from: u64, task_id: &str) -> Vec<Value> {
    let bytes = auth.sandbox.log_bytes();
    let tail = &bytes[(from as usize).min(bytes.len())..];
    let mut out = Vec::new();
    let end = tail.iter().rposition(|b| *b == b'\n').map(|i| i + 1).unwrap_or(0);
    for line in tail[..end].split(|b| *b == b'\n') {
        if line.is_empty() {
            continue;
        }
        if let Ok(v) = serde_json::from_slice::<Value>(line) {
            if v["stream_kind"] == "task" && v["stream_id"] == task_id {
                out.push(v);
            }
        }
    }
    out
}

async fn wait_file(path: &Path, timeout: Duration) -> bool {
    let t0 = Instant::now();
    loop {
        if path.exists() {
            return true;
        }
        if t0.elapsed() > timeout {
            return false;
        }
        tokio::time::sleep(Duration::from_millis(2)).await;
    }
}

fn run_task(case: &Case, strict: Strict) -> CaseReport {
    with_ctx(|ctx| {
        if ctx.auth.is_none() || ctx.uses >= AUTH_REUSE {
            let _g = ctx.rt.enter();
            ctx.auth = None;
            ctx.auth = Some(Authority::new("c17", None));
            ctx.uses = 0;
        }
        ctx.uses += 1;
        let mut rep = CaseReport::new();
        let discard = {
            let auth = ctx.auth.as_ref().unwrap();
            ctx.rt.block_on(task_case(auth, case, strict, &mut rep))
        };
        if discard {
            let _g = ctx.rt.enter();
            ctx.auth = None;
        }
        rep
    })
}

/// returns true when the authority must not be reused (a task may still be running)
async fn task_case(auth: &Authority, case: &Case, strict: Strict, rep: &mut CaseReport) -> bool {
    let plan_dir = rv::engine::scratch::Scratch::new("c17plan");
    let built = build(case);
    let tool = if case.surface == "task:shell" { "shell" } else { "bash" };
    rep.class(format!("surface:{}", case.surface));
    rep.class(format!("cancel:{}", case.cancel));
    rep.class(format!("invalid:{}", case.invalid));
    let command = if case.invalid == "command_not_found" {
        "rv_c17_no_such_command".to_string()
    } else {
        render(&built, plan_dir.path(), case.exit)
    };
    let mut args = json!({"command": command});
    if let Some(m) = case.max_bytes {
        args["max_bytes"] = json!(m);
    }
    if let Some(c) = case.cap {
        args["artifact_max_bytes"] = json!(c);
    }
    let mut tool_name = tool.to_string();
    match case.invalid.as_str() {
        "args_not_object" => args = json!("nope"),
        "missing_command" => args = json!({"cwd": "."}),
        "bad_max_bytes" => args["max_bytes"] = json!(-1),
        "cwd_dotdot" => args["cwd"] = json!("../x"),
        "cwd_abs" => args["cwd"] = json!(auth.sandbox.ws.display().to_string()),
        "cwd_missing" => args["cwd"] = json!("no/such/dir"),
        "unsupported_tool" => tool_name = "read".into(),
        _ => {}
    }
    let log_before = file_len(&auth.sandbox.log_path());
    let (s, v) = call_json(
        &auth.router,
        Method::POST,
        "/tasks",
        Some(json!({"tool": tool_name, "args": args, "title": "c17"})),
    )
    .await;
    if case.invalid == "unsupported_tool" {
        // server.rs create_task: 400 before any task entity exists; nothing is logged
        if s != StatusCode::BAD_REQUEST {
            rep.fail("create_task|unsupported_tool|not_rejected_with_400", json!({"status": s.as_u16()}));
        }
        tokio::time::sleep(Duration::from_millis(5)).await;
        if file_len(&auth.sandbox.log_path()) != log_before {
            rep.fail("create_task|unsupported_tool|frames_logged_for_refused_request", json!({}));
        }
        rep.class("rejected:http_400");
        return false;
    }
    let Some(task_id) = v["task_id"].as_str().map(|s| s.to_string()) else {
        rep.fail("create_task|no_task_id", json!({"status": s.as_u16(), "body": v}));
        return true;
    };
    if s != StatusCode::CREATED {
        rep.fail("create_task|unexpected_status", json!({"status": s.as_u16()}));
        return true;
    }
    let cancel_body = || Some(json!({"reason": "c17-cancel"}));
    let cancel_path = format!("/tasks/{task_id}/cancel");
    let events_path = format!("/tasks/{task_id}/events");
    let mut cancel_sent = false;
    if case.cancel == "immediately" {
        let (cs, _) = call(&auth.router, Method::POST, &cancel_path, cancel_body()).await;
        if cs != StatusCode::ACCEPTED {
            rep.fail("cancel|unexpected_status", json!({"status": cs.as_u16()}));
        }
        cancel_sent = true;
    }

    // ---- drive: read the SSE stream up to the cancel trigger / the terminal status
    let l_arg = case.max_bytes.unwrap_or(512 * 1024).min(OUTPUT_EVENT_MAX);
    let first_write_after_hang = built.hang_at == Some(0) || built.writes.is_empty();
    let trigger_running = case.cancel == "after_running" || l_arg == 0 || first_write_after_hang;
    let mid_cancel = case.cancel == "after_running" || case.cancel == "after_output";
    let mut sse_frames: Vec<Value>;
    let mut saw_terminal;
    {
        let mut seen = 0usize;
        let mut hit = false;
        let (st, payloads, _) = sse_collect(
            &auth.router,
            &events_path,
            if mid_cancel { Duration::from_millis(1500) } else { Duration::from_secs(10) },
            |p| {
                while seen < p.len() {
                    if let Ok(v) = serde_json::from_str::<Value>(&p[seen]) {
                        if is_terminal(&v) {
                            hit = true;
                        }
                        if mid_cancel {
                            if v["type"] == "tool_task_output_delta" {
                                hit = true;
                            }
                            if trigger_running && v["type"] == "tool_task_status" && v["status"] == "running" {
                                hit = true;
                            }
                        }
                    }
                    seen += 1;
                }
                hit
            },
        )
        .await;
        if st != StatusCode::OK {
            rep.fail("events|unexpected_status", json!({"status": st.as_u16()}));
            return true;
        }
        sse_frames = payloads.iter().filter_map(|p| serde_json::from_str(p).ok()).collect();
        saw_terminal = sse_frames.iter().any(is_terminal);
    }
    if mid_cancel && !saw_terminal {
        let (cs, _) = call(&auth.router, Method::POST, &cancel_path, cancel_body()).await;
        if cs != StatusCode::ACCEPTED {
            rep.fail("cancel|unexpected_status", json!({"status": cs.as_u16()}));
        }
        cancel_sent = true;
        // late subscriber: replays the recorded frames, then follows live
        let mut seen = 0usize;
        let mut hit = false;
        let (_st, payloads, _) = sse_collect(&auth.router, &events_path, Duration::from_secs(10), |p| {
            while seen < p.len() {
                if let Ok(v) = serde_json::from_str::<Value>(&p[seen]) {
                    if is_terminal(&v) {
                        hit = true;
                    }
                }
                seen += 1;
            }
            hit
        })
        .await;
        sse_frames = payloads.iter().filter_map(|p| serde_json::from_str(p).ok()).collect();
        saw_terminal = sse_frames.iter().any(is_terminal);
    }
    let snapshot = auth.sandbox.data.join("task_snapshots").join(format!("{task_id}.json"));
    if !saw_terminal {
        // the SSE join can miss a frame (publish-before-record, C06's subject): fall back to the
        // end-of-run marker before giving up
        if !wait_file(&snapshot, Duration::from_secs(5)).await {
            rep.inconclusive("no_terminal_status_within_timeout");
            return true;
        }
        rep.count("terminal_missed_on_sse", 1);
    }
    // run_task writes the task snapshot after the terminal frame was appended to the log
    if !wait_file(&snapshot, Duration::from_secs(10)).await {
        rep.inconclusive("no_task_snapshot_within_timeout");
        return true;
    }
    if case.cancel == "after_exit" {
        let (cs, _) = call(&auth.router, Method::POST, &cancel_path, cancel_body()).await;
        if cs != StatusCode::ACCEPTED {
            rep.fail("cancel|unexpected_status", json!({"status": cs.as_u16()}));
        }
        tokio::time::sleep(Duration::from_millis(30)).await;
    }

    // ---- lifecycle, from the raw truth log
    let frames = task_frames(auth, log_before, &task_id);
    if std::env::var_os("C17_DEBUG").is_some() {
        for f in &frames {
            eprintln!("[c17] {}", clip(&f.to_string()));
        }
    }
    if frames.is_empty() {
        rep.fail("lifecycle|no_frames_in_log", json!({"task": "created with 201"}));
        return true;
    }
    for (i, f) in frames.iter().enumerate() {
        if f["seq"].as_u64() != Some(i as u64) {
            rep.fail("lifecycle|seq_not_contiguous_from_0", json!({"index": i, "seq": f["seq"], "type": f["type"]}));
            break;
        }
    }
    let types: Vec<String> = frames
        .iter()
        .map(|f| {
            let t = f["type"].as_str().unwrap_or("?");
            if t == "tool_task_status" {
                format!("status:{}", f["status"].as_str().unwrap_or("?"))
            } else if t == "tool_task_output_delta" {
                format!("delta:{}", f["stream"].as_str().unwrap_or("?"))
            } else {
                t.to_string()
            }
        })
        .collect();
    let terminals: Vec<usize> = frames.iter().enumerate().filter(|(_, f)| is_terminal(f)).map(|(i, _)| i).collect();
    if terminals.len() != 1 {
        rep.fail("lifecycle|terminal_status_count_not_1", json!({"count": terminals.len(), "types": types}));
        return true;
    }
    if terminals[0] != frames.len() - 1 {
        rep.fail("lifecycle|frames_after_terminal_status", json!({"terminal_at": terminals[0], "types": types}));
        return true;
    }
    let running = types.iter().filter(|t| *t == "status:running").count();
    if running > 1 {
        rep.fail("lifecycle|running_reported_more_than_once", json!({"types": types}));
    }
    let terminal = frames.last().unwrap().clone();
    let term_status = terminal["status"].as_str().unwrap_or("?").to_string();
    rep.class(format!("terminal:{term_status}"));
    let args_rejected = matches!(case.invalid.as_str(), "args_not_object" | "missing_command" | "bad_max_bytes");
    let spawned_first = types[0] == "tool_task_spawned";
    if args_rejected {
        // docs: "spawn accepted/rejected" is a logged transition; which frame records a rejection
        // is not specified. Observed: a lone `failed` status. Only the shape is asserted.
        rep.class(if spawned_first { "rejected:with_spawn_frame" } else { "rejected:no_spawn_frame" });
        if term_status != "failed" {
            rep.fail("lifecycle|invalid_args_not_failed", json!({"types": types}));
        }
        return false;
    }
    if !spawned_first {
        rep.fail("lifecycle|first_frame_not_spawned", json!({"types": types}));
        return false;
    }
    if types.iter().filter(|t| *t == "tool_task_spawned").count() != 1 {
        rep.fail("lifecycle|spawn_frame_repeated", json!({"types": types}));
    }
    let pos = |name: &str| types.iter().position(|t| t == name);
    let (creq, cdone) = (pos("tool_task_cancel_requested"), pos("tool_task_cancelled"));
    if term_status == "cancelled" && (creq.is_none() || cdone.is_none()) {
        rep.fail("lifecycle|cancelled_status_without_cancel_frames", json!({"types": types}));
    }
    if let Some(d) = cdone {
        match creq {
            Some(r) if r < d => {}
            _ => rep.fail("lifecycle|cancelled_before_cancel_requested", json!({"types": types})),
        }
    }
    if (creq.is_some() || cdone.is_some()) && !cancel_sent {
        rep.fail("lifecycle|cancel_frames_without_cancel_request", json!({"types": types}));
    }
    if cancel_sent && case.cancel == "immediately" && creq.is_none() {
        // accepted with 202 before run_task subscribed to the cancel channel: the request is
        // dropped. Outside C17's statement (nothing is recorded, so no ordering is violated).
        rep.class("cancel:lost_before_subscribe");
        rep.count("cancel_accepted_but_never_recorded", 1);
    }

    // SSE vs truth: every frame the (last) subscriber saw is the logged frame of that seq
    {
        let mut last_seq: Option<u64> = None;
        for sf in &sse_frames {
            let Some(seq) = sf["seq"].as_u64() else { continue };
            if last_seq.map(|l| seq <= l).unwrap_or(false) {
                rep.fail("sse|frames_not_in_increasing_seq_order", json!({"seq": seq, "after": last_seq}));
                break;
            }
            last_seq = Some(seq);
            match frames.get(seq as usize) {
                Some(lf) if lf == sf => {}
                _ => {
                    rep.fail("sse|frame_differs_from_logged_frame", json!({"seq": seq, "sse": clip(&sf.to_string())}));
                    break;
                }
            }
        }
        if saw_terminal {
            let seen = sse_frames.len();
            let upto = sse_frames.last().and_then(|f| f["seq"].as_u64()).map(|s| s as usize + 1).unwrap_or(0);
            if seen < upto {
                rep.count("sse_missing_frames", (upto - seen) as u64);
            }
        }
    }

    // docs: "attach/reconnect is deterministic (late subscribers see the same tail + artifact refs)":
    // a subscriber attaching after the end gets exactly the recorded stream
    {
        let mut seen = 0usize;
        let mut hit = false;
        let (_st, payloads, _) = sse_collect(&auth.router, &events_path, Duration::from_secs(10), |p| {
            while seen < p.len() {
                if let Ok(v) = serde_json::from_str::<Value>(&p[seen]) {
                    if is_terminal(&v) {
                        hit = true;
                    }
                }
                seen += 1;
            }
            hit
        })
        .await;
        let late: Vec<Value> = payloads.iter().filter_map(|p| serde_json::from_str(p).ok()).collect();
        if !hit {
            rep.inconclusive("late_subscriber_saw_no_terminal_status");
        } else if late != frames {
            rep.fail(
                "sse|late_subscriber_replay_differs_from_log",
                json!({"sse_frames": late.len(), "log_frames": frames.len()}),
            );
        }
    }

    // GET /tasks/{id} is a projection of the terminal frame
    let (ss, status) = call_json(&auth.router, Method::GET, &format!("/tasks/{task_id}"), None).await;
    if ss != StatusCode::OK {
        rep.fail("status|unexpected_http_status", json!({"status": ss.as_u16()}));
    } else {
        for k in ["status", "exit_code", "error"] {
            if status[k] != terminal[k] {
                rep.fail(format!("status|{k}_differs_from_terminal_frame"), json!({"status": status[k], "frame": terminal[k]}));
            }
        }
        if !terminal["artifacts"].is_null() && status["artifacts"] != terminal["artifacts"] {
            rep.fail("status|artifacts_differ_from_terminal_frame", json!({"status": status["artifacts"], "frame": terminal["artifacts"]}));
        }
    }

    let cwd_invalid = matches!(case.invalid.as_str(), "cwd_dotdot" | "cwd_abs" | "cwd_missing");
    if cwd_invalid {
        // whether a cwd is acceptable is C13's subject; observed: spawn frame, then `failed`
        rep.class(format!("rejected:after_spawn_frame:{term_status}"));
        return false;
    }
    if term_status == "failed" {
        rep.fail("lifecycle|valid_command_failed", json!({"error": terminal["error"], "types": types}));
        return false;
    }

    // ---- limits in force (recorded in the spawn frame)
    let spawn = &frames[0];
    let l_frame = spawn["artifacts"]["max_bytes"].as_u64();
    let c_frame = spawn["artifacts"]["artifact_max_bytes"].as_u64();
    if let (Some(m), Some(got)) = (case.max_bytes, l_frame) {
        if m != got {
            rep.fail("spawn_frame|max_bytes_differs_from_request", json!({"asked": m, "frame": got}));
        }
    }
    if let (Some(c), Some(got)) = (case.cap, c_frame) {
        if c != got {
            rep.fail("spawn_frame|artifact_max_bytes_differs_from_request", json!({"asked": c, "frame": got}));
        }
    }
    let m_eff = case.max_bytes.or(l_frame).unwrap_or(512 * 1024);
    let cap = case.cap.or(c_frame).unwrap_or(16 * 1024 * 1024);
    let l = m_eff.min(OUTPUT_EVENT_MAX) as usize;
    size_classes(rep, case, m_eff, cap);

    let exited = term_status == "exited";
    if case.invalid == "command_not_found" {
        if exited && terminal["exit_code"] != 127 {
            rep.fail("exit_code|command_not_found_not_127", json!({"exit_code": terminal["exit_code"]}));
        }
    } else if exited && terminal["exit_code"] != json!(case.exit) {
        rep.fail("exit_code|differs_from_plan", json!({"plan": case.exit, "frame": terminal["exit_code"]}));
    }
    let cancelled_running = term_status == "cancelled" && running == 1;
    rep.class_if(cancelled_running, "cancelled_while_running");
    if case.cancel != "none" {
        rep.class(format!("cancel_outcome:{}:{}", case.cancel, term_status));
    }

    // ---- stored output per stream
    let mut transient = false;
    let mut crossed = false;
    for (si, sname) in ["stdout", "stderr"].iter().enumerate() {
        let full: &[u8] = if case.invalid == "command_not_found" { &[] } else { &built.exp[si] };
        if case.invalid == "command_not_found" && si == 1 {
            continue; // the shell's own message: not known by construction
        }
        let spawn_ref = &spawn["artifacts"]["logs"][*sname];
        let Some(aid) = spawn_ref["id"].as_str() else {
            rep.fail("spawn_frame|no_log_ref", json!({"stream": sname}));
            continue;
        };
        let meta = &terminal["artifacts"]["logs"][*sname];
        if meta["id"] != spawn_ref["id"] || meta["path"] != spawn_ref["path"] {
            rep.fail("terminal_meta|log_ref_differs_from_spawn_frame", json!({"stream": sname}));
        }
        let (Some(bt), Some(bs), Some(tr)) = (meta["bytes_total"].as_u64(), meta["bytes_stored"].as_u64(), meta["truncated"].as_bool()) else {
            rep.fail("terminal_meta|missing_counts", json!({"stream": sname, "meta": meta}));
            continue;
        };
        if !meta["error"].is_null() {
            rep.fail("terminal_meta|log_error", json!({"stream": sname, "error": meta["error"]}));
            continue;
        }
        let t = full.len() as u64;
        if exited && bt != t {
            rep.fail("terminal_meta|bytes_total_differs_from_written", json!({"stream": sname, "bytes_total": bt, "written": t}));
            continue;
        }
        if bt > t {
            rep.fail("terminal_meta|bytes_total_exceeds_written", json!({"stream": sname, "bytes_total": bt, "written": t}));
            continue;
        }
        if bs != bt.min(cap) {
            rep.fail("terminal_meta|bytes_stored_not_min_of_total_and_cap", json!({"stream": sname, "bytes_total": bt, "bytes_stored": bs, "cap": cap}));
            continue;
        }
        if tr != (bt > bs) {
            rep.fail("terminal_meta|truncated_flag", json!({"stream": sname, "bytes_total": bt, "bytes_stored": bs, "truncated": tr}));
        }
        rep.class_if(bt > cap, "truncated_by_cap");
        crossed |= t > l as u64 || t > READ_SIZE || t > cap;
        let want = &full[..bs as usize];
        let path = auth.sandbox.blob_path(aid);
        let (stored, tr1, first_len, slow) = read_stable(&path, want);
        if slow {
            rep.count("transient_slower_than_200ms", 1);
        }
        if tr1 {
            // the terminal frame (and the task snapshot) were written before the artifact file
            // held all the bytes the frame reports as stored
            transient = true;
            rep.count("transient_task_artifact_short_after_terminal", 1);
            rep.count("transient_task_missing_bytes", (want.len().saturating_sub(first_len)) as u64);
            if std::env::var_os("C17_DEBUG").is_some() {
                eprintln!("[c17] transient: stream {sname} first read {first_len} bytes, want {}", want.len());
            }
        }
        if stored != want {
            rep.fail(
                "stored_output|task|differs_from_prefix_of_written_bytes",
                json!({"stream": sname, "stored_len": stored.len(), "want_len": want.len(), "first_diff": first_diff(&stored, want),
                       "cap": cap, "written": t, "terminal": term_status}),
            );
            continue;
        }
        // ---- ranges referenced by the output frames
        let deltas: Vec<&Value> = frames.iter().filter(|f| f["type"] == "tool_task_output_delta" && f["stream"] == *sname).collect();
        check_ranges(rep, strict, sname, &deltas, aid, &stored, &full[..bt as usize], l, cap);
        // ---- pages
        if rep.fails.is_empty() {
            let t = Target::Task { auth, id: &task_id, stream: sname };
            run_pages(rep, strict, &t, &stored, &case.pages, si as u8).await;
        }
    }
    if transient {
        rep.count("transient_mismatch", 1);
        rep.class("transient_mismatch");
    }
    let il = interleaved(&built);
    rep.class_if(il, "interleaved");
    rep.class_if(mb_split_across_writes(case, &built), "multibyte_split_across_writes");
    rep.nontrivial = case.invalid == "none" && (crossed || il || cancelled_running);

    if case.cancel == "after_exit" {
        let again = task_frames(auth, log_before, &task_id);
        if again.len() != frames.len() {
            rep.fail("lifecycle|frames_after_terminal_status", json!({"after_cancel_of_finished_task": again.len() - frames.len()}));
        }
    }
    false
}

/// Output frames of one stream: consecutive, non-overlapping ranges from 0 that reproduce the
/// stored bytes; each preview is a prefix (within the limit) of the bytes of its read.
#[allow(clippy::too_many_arguments)]
fn check_ranges(
    rep: &mut CaseReport,
    strict: Strict,
    sname: &str,
    deltas: &[&Value],
    aid: &str,
    stored: &[u8],
    written: &[u8],
    l: usize,
    cap: u64,
) {
    // a read whose preview is empty: longer than the limit and no valid UTF-8 within the limit
    let empty_preview_possible = |region: &[u8]| region.len() > l && valid_prefix_len(&region[..l]) == 0;
    let known_gap = |rep: &mut CaseReport, detail: Value| {
        rep.class("range_gap:empty_preview");
        if strict.gap {
            rep.fail(SIG_GAP, detail);
        } else {
            rep.count("excluded_known_empty_preview_gap", 1);
        }
    };
    let mut next_off = 0u64;
    let mut prev_total = 0u64;
    let mut rebuilt: Vec<u8> = Vec::with_capacity(stored.len());
    rep.count("delta_frames", deltas.len() as u64);
    for (k, d) in deltas.iter().enumerate() {
        let lg = &d["artifacts"]["log"];
        let (Some(off), Some(n), Some(bt), Some(bs), Some(tr)) = (
            lg["offset_bytes"].as_u64(),
            lg["bytes"].as_u64(),
            lg["bytes_total"].as_u64(),
            lg["bytes_stored"].as_u64(),
            lg["truncated"].as_bool(),
        ) else {
            rep.count("delta_without_range", 1);
            continue;
        };
        let ctx = json!({"stream": sname, "frame": k, "offset_bytes": off, "bytes": n, "bytes_total": bt, "bytes_stored": bs,
                         "expected_offset": next_off, "preview_limit": l, "cap": cap});
        if lg["id"] != aid {
            rep.fail("delta_range|artifact_id_differs_from_spawn_frame", ctx.clone());
            return;
        }
        if off < next_off {
            rep.fail("range_overlap|task_output_delta|offset_before_end_of_previous_range", ctx.clone());
            return;
        }
        if bt as usize > written.len() || bt < prev_total {
            rep.fail("delta_meta|task_output_delta|bytes_total_exceeds_written", ctx.clone());
            return;
        }
        if off > next_off {
            // the skipped read(s) start at written[prev_total]; the first one is longer than the
            // limit and has no valid UTF-8 within it (total coordinates: the cap may have kept
            // part of the read out of the artifact)
            let region = &written[prev_total as usize..bt as usize];
            if off as usize <= stored.len() && empty_preview_possible(region) {
                known_gap(rep, ctx.clone());
                rebuilt.extend_from_slice(&stored[next_off as usize..off as usize]);
            } else {
                rep.fail("range_gap|task_output_delta|offset_after_end_of_previous_range", ctx.clone());
                return;
            }
        }
        if off + n != bs || bs > cap || bt < bs || bt < prev_total + n || tr != (bt > bs) {
            rep.fail("delta_meta|task_output_delta|counts_inconsistent", ctx.clone());
            return;
        }
        let Some(range) = stored.get(off as usize..(off + n) as usize) else {
            rep.fail("delta_range|task_output_delta|range_beyond_stored_output", ctx.clone());
            return;
        };
        rebuilt.extend_from_slice(range);
        // preview: the read covered written[s..bt] with s = prev_total unless reads were skipped
        let p = d["chunk"].as_str().unwrap_or("");
        let ok_at = |s: usize| -> bool {
            let c = &written[s..bt as usize];
            let lim = l.min(c.len());
            // the first character is decided by the first <= 4 bytes: cheap rejection
            if let Some(pc) = p.chars().next() {
                if lossy(&c[..lim.min(4)]).chars().next() != Some(pc) {
                    return false;
                }
            }
            let full = lossy(&c[..lim]);
            if c.len() <= l {
                p == full
            } else {
                full.starts_with(p)
            }
        };
        if !ok_at(prev_total as usize) {
            // skipped reads before this one (invisible in the offsets once the cap is reached)
            let skipped_possible = empty_preview_possible(&written[prev_total as usize..bt as usize]);
            let lo = prev_total as usize + 1;
            let hi = (bt - n.max(1).min(bt - prev_total)) as usize;
            let found = skipped_possible && (lo..=hi.max(lo)).take(70_000).any(|s| s <= bt as usize && ok_at(s));
            if found {
                known_gap(rep, json!({"ctx": ctx, "why": "preview matches a later read; earlier reads had no frame"}));
            } else {
                rep.fail(
                    "preview|task_output_delta|not_a_prefix_of_the_bytes_of_its_read",
                    json!({"ctx": ctx, "chunk": clip(p), "read_starts_with": clip(&lossy(&written[prev_total as usize..(bt as usize).min(prev_total as usize + 64)]))}),
                );
                return;
            }
        }
        prev_total = bt;
        next_off = off + n;
    }
    if (next_off as usize) < stored.len() {
        let region = &written[(prev_total as usize).min(written.len())..];
        if empty_preview_possible(region) {
            known_gap(rep, json!({"stream": sname, "ranges_end_at": next_off, "stored": stored.len(), "preview_limit": l, "frames": deltas.len()}));
            rebuilt.extend_from_slice(&stored[next_off as usize..]);
        } else {
            rep.fail("range_gap|task_output_delta|ranges_stop_before_end_of_stored_output",
                json!({"stream": sname, "ranges_end_at": next_off, "stored": stored.len(), "preview_limit": l, "frames": deltas.len()}));
            return;
        }
    }
    if rebuilt != stored {
        rep.fail("delta_range|task_output_delta|ranges_do_not_reproduce_stored_output",
            json!({"stream": sname, "rebuilt": rebuilt.len(), "stored": stored.len()}));
    }
}

// ---------------------------------------------------------------------------------------------
// Group `fg`: foreground bash / shell tool + artifact_fetch
// ---------------------------------------------------------------------------------------------

fn run_fg(case: &Case, strict: Strict) -> CaseReport {
    with_ctx(|ctx| {
        let mut rep = CaseReport::new();
        ctx.rt.block_on(fg_case(case, strict, &mut rep));
        rep
    })
}

fn norm_preview(s: &str) -> String {
    s.strip_suffix('\n').unwrap_or(s).replace('\r', "")
}

async fn fg_case(case: &Case, strict: Strict, rep: &mut CaseReport) {
    let sb = Sandbox::new("c17f");
    let plan_dir = sb.root.join("plan");
    std::fs::create_dir_all(&plan_dir).expect("plan dir");
    let built = build(case);
    rep.class(format!("surface:{}", case.surface));
    rep.class(format!("invalid:{}", case.invalid));
    let defaults = BuiltinToolConfig::default();
    let cfg = BuiltinToolConfig {
        workspace_root: sb.ws.clone(),
        artifact_max_bytes: case.cap.map(|c| c as usize).unwrap_or(defaults.artifact_max_bytes),
        ..defaults
    };
    let m_eff = case.max_bytes.unwrap_or(cfg.max_bytes as u64);
    let cap = cfg.artifact_max_bytes as u64;
    let registry = ToolRegistry::default();
    register_builtin_tools(&registry, cfg.clone());
    let runner = ToolRunner::new(Arc::new(registry), 4);

    let command = if case.invalid == "command_not_found" {
        "rv_c17_no_such_command".to_string()
    } else {
        render(&built, &plan_dir, case.exit)
    };
    let mut args = json!({"command": command});
    if let Some(m) = case.max_bytes {
        args["max_bytes"] = json!(m);
    }
    let mut name = case.surface.clone();
    match case.invalid.as_str() {
        "args_not_object" => args = json!("nope"),
        "missing_command" => args = json!({"cwd": "."}),
        "bad_max_bytes" => args["max_bytes"] = json!(-1),
        "cwd_dotdot" => args["cwd"] = json!("../x"),
        "cwd_abs" => args["cwd"] = json!(sb.ws.display().to_string()),
        "cwd_missing" => args["cwd"] = json!("no/such/dir"),
        "unsupported_tool" => name = "rv_no_such_tool".into(),
        _ => {}
    }
    let mut seq = 0u64;
    let events = runner.run("c17-session", &mut seq, ToolInvocation { name, args, timeout_ms: None }).await;
    let evs: Vec<Value> = events.iter().filter_map(|e| serde_json::to_value(e).ok()).collect();
    let types: Vec<&str> = evs.iter().map(|e| e["type"].as_str().unwrap_or("?")).collect();
    // shape: started, stdout*, stderr*, exactly one terminal frame, last
    let terminals = types.iter().filter(|t| **t == "tool_ended" || **t == "tool_failed").count();
    if types.first() != Some(&"tool_started") || terminals != 1 || !matches!(types.last(), Some(&"tool_ended") | Some(&"tool_failed")) {
        rep.fail("tool_frames|not_started_output_one_terminal", json!({"types": types}));
        return;
    }
    for (i, e) in evs.iter().enumerate() {
        if e["seq"].as_u64() != Some(i as u64) {
            rep.fail("tool_frames|seq_not_contiguous", json!({"index": i}));
            return;
        }
    }
    let ended = evs.last().unwrap();
    if case.invalid != "none" && case.invalid != "command_not_found" {
        // no process output exists for a refused invocation
        let code = ended["exit_code"].as_i64();
        rep.class(format!("rejected:{}:{}", types.last().unwrap(), code.map(|c| c.to_string()).unwrap_or("-".into())));
        if types.contains(&"tool_stdout") {
            rep.fail("tool_frames|stdout_for_refused_invocation", json!({"types": types, "invalid": case.invalid}));
        }
        if types.last() == Some(&"tool_ended") && code == Some(0) {
            rep.fail("tool_frames|refused_invocation_reports_success", json!({"invalid": case.invalid}));
        }
        return;
    }
    if ended["type"] != "tool_ended" {
        rep.fail("tool_frames|valid_command_failed", json!({"frame": ended}));
        return;
    }
    size_classes(rep, case, m_eff, cap);
    if case.invalid == "command_not_found" {
        if ended["exit_code"] != 127 {
            rep.fail("exit_code|command_not_found_not_127", json!({"exit_code": ended["exit_code"]}));
        }
    } else if ended["exit_code"] != json!(case.exit) {
        rep.fail("exit_code|differs_from_plan", json!({"plan": case.exit, "frame": ended["exit_code"]}));
    }
    let mut transient = false;
    let mut crossed = false;
    for (si, sname) in ["stdout", "stderr"].iter().enumerate() {
        if case.invalid == "command_not_found" && si == 1 {
            continue;
        }
        let full: &[u8] = if case.invalid == "command_not_found" { &[] } else { &built.exp[si] };
        let t = full.len() as u64;
        let info = &ended["artifacts"][*sname];
        let ctx = json!({"stream": sname, "written": t, "max_bytes": m_eff, "cap": cap, "info": info});
        if !info["error"].is_null() {
            rep.fail("tool_meta|stream_error", ctx.clone());
            continue;
        }
        if info["bytes_total"].as_u64() != Some(t) {
            rep.fail("tool_meta|bytes_total_differs_from_written", ctx.clone());
            continue;
        }
        if info["truncated"].as_bool() != Some(t > m_eff) {
            rep.fail("tool_meta|truncated_flag", ctx.clone());
        }
        crossed |= t > m_eff || t > READ_SIZE || t > cap;
        // ---- preview
        let k0 = t.min(m_eff) as usize;
        let k1 = if t > m_eff { valid_prefix_len(&full[..k0]).max(k0.saturating_sub(3)).min(k0) } else { k0 };
        let k1 = if is_utf8(&full[..k1]) { k1 } else { k0 };
        let ftype = if si == 0 { "tool_stdout" } else { "tool_stderr" };
        let chunks: Vec<&str> = evs.iter().filter(|e| e["type"] == ftype).filter_map(|e| e["chunk"].as_str()).collect();
        let got = chunks.join("\n").replace('\r', "");
        let strip = |s: String| if is_utf8(&full[..k0]) { s } else { s.replace('\u{fffd}', "") };
        let cands = [norm_preview(&lossy(&full[..k0])), norm_preview(&lossy(&full[..k1]))];
        let got_n = strip(got.clone());
        let hit = cands.iter().position(|c| strip(c.clone()) == got_n);
        if hit.is_none() {
            rep.fail(
                format!("preview|{}|not_the_prefix_of_written_bytes_within_max_bytes", case.surface),
                json!({"ctx": ctx, "got": clip(&got), "want": clip(&cands[0]), "first_diff": first_diff(got.as_bytes(), cands[0].as_bytes())}),
            );
        }
        let bp = info["bytes_preview"].as_u64();
        if bp != Some(k0 as u64) && bp != Some(k1 as u64) {
            rep.fail("tool_meta|bytes_preview", ctx.clone());
        }
        // ---- artifact
        let art = &info["artifact"];
        let want_art = t > m_eff && cap > 0;
        if art.is_null() != !want_art {
            rep.fail(
                format!("artifact|{}|presence_differs_from_output_exceeds_preview_and_cap_nonzero", case.surface),
                json!({"ctx": ctx, "expected_present": want_art}),
            );
            continue;
        }
        if !want_art {
            continue;
        }
        rep.class("artifact:present");
        rep.class_if(t > cap, "truncated_by_cap");
        let stored_len = t.min(cap);
        let want = &full[..stored_len as usize];
        let id = art["id"].as_str().unwrap_or("");
        if art["bytes"].as_u64() != Some(stored_len) || art["truncated"].as_bool() != Some(t > cap) {
            rep.fail(format!("artifact|{}|bytes_or_truncated_inconsistent", case.surface), ctx.clone());
        }
        if id != sha_hex(want) {
            rep.fail(
                format!("artifact|{}|id_is_not_sha256_of_prefix_of_written_bytes", case.surface),
                json!({"ctx": ctx, "want_id": sha_hex(want)}),
            );
            continue;
        }
        if art["path"].as_str() != Some(&format!(".rip/artifacts/blobs/{id}")) {
            rep.fail(format!("artifact|{}|path", case.surface), ctx.clone());
        }
        let (stored, tr1, _first_len, slow) = read_stable(&sb.blob_path(id), want);
        transient |= tr1;
        if slow {
            rep.count("transient_slower_than_200ms", 1);
        }
        if sha_hex(&stored) != id {
            rep.fail(
                format!("artifact|{}|file_bytes_do_not_hash_to_id", case.surface),
                json!({"ctx": ctx, "file_len": stored.len(), "want_len": want.len(), "first_diff": first_diff(&stored, want)}),
            );
            continue;
        }
        if stored != want {
            rep.fail(format!("stored_output|{}|differs_from_prefix_of_written_bytes", case.surface), ctx.clone());
            continue;
        }
        if rep.fails.is_empty() {
            let tg = Target::Fetch { runner: &runner, id };
            run_pages(rep, strict, &tg, &stored, &case.pages, si as u8).await;
        }
    }
    // nothing may be left in the spill directory once the call returned
    let tmp_left = std::fs::read_dir(sb.ws.join(".rip/artifacts/tmp")).map(|rd| rd.count()).unwrap_or(0);
    rep.count("spill_files_left", tmp_left as u64);
    if transient {
        rep.count("transient_mismatch", 1);
        rep.class("transient_mismatch");
    }
    let il = interleaved(&built);
    rep.class_if(il, "interleaved");
    rep.class_if(mb_split_across_writes(case, &built), "multibyte_split_across_writes");
    rep.nontrivial = case.invalid == "none" && (crossed || il);
}

fn main() {
    let mut check = Check::new("C17", "exploration");
    check.assume("PTY mode is not exercised: PTY tasks cannot run in this sandbox (every repo PTY test is in the baseline's always_fail list) and a terminal rewrites bytes, so byte-faithfulness is not defined for it");
    check.assume("expected output is known by construction: the command is a generated sh script (printf with octal escapes for writes <= 256 bytes, cat of a file holding exactly the bytes otherwise, sleep 0.01 between some writes, exit N); how the OS splits the pipe into reads is never part of a verdict");
    check.assume("tasks: per-call caps are passed as args.max_bytes / args.artifact_max_bytes (accepted by create_task); foreground tool: max_bytes per call, the artifact cap only through BuiltinToolConfig.artifact_max_bytes (the tool has no per-call cap argument)");
    check.assume("rejected spawns: docs/03_tool_tasks.md only says 'spawn accepted/rejected' is a logged transition; unsupported tool must answer 400 and log nothing (server.rs create_task, server_tests), invalid args must end in a lone terminal `failed` status; whether a spawn frame precedes it is classified, not asserted. Whether a cwd is acceptable is C13's subject (shape only)");
    check.assume("a delta frame's preview must be a prefix (lossy-decoded, within min(max_bytes, 8 KiB)) of the bytes of its read, and the whole read when it fits; a preview may show bytes the cap kept out of the artifact (the statement's 'prefix of it' is read as 'of what the process wrote')");
    check.assume("page `content` is a JSON string: it is compared exactly when the stored output is UTF-8 text (possibly a cap-cut prefix ending in a partial character) and the page starts and ends on character boundaries; a page that starts inside a character (client-chosen offset) is only counted; a page whose END cuts a character is the known finding K2; for binary output only byte counts / offsets / totals are compared. `bytes` must be min(max_bytes, remaining), except that a reader may move the end of a page by <= 3 bytes to a character boundary (so a repaired reader is not flagged)");
    check.assume("foreground preview is compared line-wise as the frames carry it (one tool_stdout/tool_stderr frame per line): chunks joined with \\n must equal the lossy-decoded first min(total, max_bytes) bytes (or up to the last character boundary before the limit) minus one final newline, carriage returns ignored on both sides; for invalid UTF-8 previews U+FFFD is ignored on both sides");
    check.assume("the SSE join may lose a frame (publish-before-record, C06/F10): lifecycle verdicts use the raw truth log; SSE frames must equal the logged frame of the same seq, missing ones are counted");
    check.assume("stored bytes are read after the terminal frame AND the task snapshot exist (tool: after the call returned); a mismatch is re-read after 200 ms and then polled for up to 10 s: equal at some point = transient (counted as transient_mismatch, never a failure), still different after 10 s = violation");
    check.assume(format!("range readers allocate vec![0u8; max_bytes] before reading: page sizes are capped at {PAGE_MAX} bytes in-process (larger values can abort the harness process, not produce a verdict)"));

    let listed = |sig: &str| check.known().matches(sig).is_some();
    let replay = check.args.replay.is_some();
    let no_excl = std::env::var("VERIF_NO_EXCLUDE").map(|v| v == "all").unwrap_or(false);
    let strict = Strict {
        gap: !EXCLUDE_KNOWN_EMPTY_PREVIEW_GAP || replay || no_excl || listed(SIG_GAP),
        split: !EXCLUDE_KNOWN_SPLIT_CHAR_PAGE || replay || no_excl || listed(SIG_SPLIT_TASK) || listed(SIG_SPLIT_FETCH),
    };

    let rule_tail = "non-trivial = valid command whose output crosses at least one limit (preview limit, 8 KiB read size, artifact cap) on some stream, or writes both streams with >= 2 alternations, or (tasks) is cancelled while running; distinct by case hash";
    let n = check.cases(6_000, 120_000);
    check.group(
        "task",
        &format!("background pipes task through the real router: byte plan (content kind x total around {{0, preview limit, 8 KiB, 16 KiB, cap, 64 KiB, limit+8 KiB}} +-1 x write cuts x stdout/stderr merge order x pauses x exit code) x max_bytes x artifact_max_bytes x cancel moment x invalid-request kind x page plans; {rule_tail}"),
        GroupOpts { cases: n, max_shrink_iters: 300, ..Default::default() },
        || case_strategy(true),
        move |c: &Case| run_task(c, strict),
    );
    let n = check.cases(4_000, 80_000);
    check.group(
        "fg",
        &format!("foreground bash/shell tool through rip_tools::ToolRunner (registry built like rip-tools' tests, workspace = sandbox) with the same byte plans, max_bytes per call, cap through BuiltinToolConfig, then artifact_fetch page plans over the produced artifact ids; {rule_tail}"),
        GroupOpts { cases: n, max_shrink_iters: 300, ..Default::default() },
        || case_strategy(false),
        move |c: &Case| run_fg(c, strict),
    );
    // drop runtimes / authorities (and their scratch dirs) before the engine exits the process
    let ctxs: Vec<Ctx> = std::mem::take(&mut *POOL.lock().unwrap());
    for mut c in ctxs {
        {
            let _g = c.rt.enter();
            c.auth = None;
        }
        c.rt.shutdown_timeout(Duration::from_millis(200));
    }
    check.finish();
}
