//! C19 — secrets never reach frames, artifacts, caches, logs or diagnostics.
//!
//! Each case runs the REAL `ripd` binary (or `rip serve`) as a subprocess in a generated
//! environment (empty env + the case's variables; global / custom / project config files inside a
//! sandbox), drives one or two runs against the scripted provider (E5) over loopback, queries every
//! diagnostic surface, stops the authority with SIGTERM and then greps every byte it can reach —
//! all files of the sandbox except the config files the harness wrote itself, every HTTP/SSE
//! response body, stdout/stderr of the authority and of the `rip` CLI — for every encoding of every
//! planted canary secret. Positive control: E5 DID receive the secret.

#[path = "c19/enc.rs"]
mod enc;
#[path = "c19/gen.rs"]
mod gen;
#[path = "c19/proc.rs"]
mod proc;
#[path = "c19/script.rs"]
mod script;

use std::cell::RefCell;
use std::collections::{BTreeMap, BTreeSet};
use std::path::{Path, PathBuf};
use std::sync::OnceLock;
use std::time::{Duration, Instant};

use rv::engine::scratch::Scratch;
use rv::engine::{CaseReport, Check, GroupOpts};
use rv::provider::Provider;
use serde_json::{json, Value};

use enc::{excerpt, needles_for, Matcher};
use gen::{Case, Entry, LAYERS};
use proc::{contains, count, walk, Bodies, Http, Proc};
use script::SLOT;

/// No in-domain defect is excluded at present (kept for the day one is confirmed).
const EXCLUDE_KNOWN: bool = false;

struct Bins {
    ripd: PathBuf,
    rip: PathBuf,
}

static BINS: OnceLock<Bins> = OnceLock::new();

thread_local! {
    static RT: RefCell<Option<tokio::runtime::Runtime>> = const { RefCell::new(None) };
}

fn run(case: &Case) -> CaseReport {
    RT.with(|cell| {
        let mut slot = cell.borrow_mut();
        if slot.is_none() {
            *slot = Some(rv::runs::runtime(2));
        }
        let rt = slot.as_ref().expect("runtime");
        rt.block_on(run_async(case))
    })
}

fn debug() -> bool {
    std::env::var_os("C19_DEBUG").is_some()
}

struct LogState {
    started: BTreeSet<String>,
    ended: BTreeMap<String, String>,
    spawned: BTreeSet<String>,
    run_ended: BTreeSet<String>,
    dump_artifacts: BTreeSet<String>,
    provider_error_frames: u64,
    tool_failed: u64,
    frames: u64,
}

fn read_log(data: &Path) -> LogState {
    let mut st = LogState {
        started: BTreeSet::new(),
        ended: BTreeMap::new(),
        spawned: BTreeSet::new(),
        run_ended: BTreeSet::new(),
        dump_artifacts: BTreeSet::new(),
        provider_error_frames: 0,
        tool_failed: 0,
        frames: 0,
    };
    let bytes = std::fs::read(data.join("events.jsonl")).unwrap_or_default();
    for line in bytes.split(|b| *b == b'\n') {
        let Ok(v) = serde_json::from_slice::<Value>(line) else {
            continue;
        };
        st.frames += 1;
        let sid = v["session_id"].as_str().unwrap_or("").to_string();
        let rsid = v["run_session_id"].as_str().unwrap_or("").to_string();
        match v["type"].as_str().unwrap_or("") {
            "session_started" => {
                st.started.insert(sid);
            }
            "session_ended" => {
                st.ended.insert(sid, v["reason"].as_str().unwrap_or("").to_string());
            }
            "continuity_run_spawned" => {
                st.spawned.insert(rsid);
            }
            "continuity_run_ended" => {
                st.run_ended.insert(rsid);
            }
            "openresponses_request" => {
                if let Some(a) = v["body_artifact_id"].as_str() {
                    st.dump_artifacts.insert(a.to_string());
                }
            }
            "provider_event" => {
                if v["errors"].as_array().map(|a| !a.is_empty()).unwrap_or(false) {
                    st.provider_error_frames += 1;
                }
            }
            "tool_failed" => st.tool_failed += 1,
            "tool_ended" => {
                if v["exit_code"].as_i64().unwrap_or(0) != 0 {
                    st.tool_failed += 1;
                }
            }
            _ => {}
        }
    }
    st
}

fn quiescent(data: &Path) -> bool {
    let st = read_log(data);
    st.started.iter().all(|s| st.ended.contains_key(s))
        && st.spawned.iter().all(|s| st.run_ended.contains(s) && st.ended.contains_key(s))
        && st.ended.keys().all(|s| data.join("snapshots").join(format!("{s}.json")).exists())
}

async fn wait_quiescent(data: &Path, max: Duration) -> bool {
    let t0 = Instant::now();
    loop {
        if quiescent(data) {
            return true;
        }
        if t0.elapsed() > max {
            return false;
        }
        tokio::time::sleep(Duration::from_millis(5)).await;
    }
}

fn session_ended_seen(buf: &[u8]) -> bool {
    contains(buf, b"\"type\":\"session_ended\"") && buf.ends_with(b"\n\n")
}

struct Paths {
    home: PathBuf,
    global_dir: PathBuf,
    custom: PathBuf,
    parent: PathBuf,
    ws: PathBuf,
    data: PathBuf,
    cwd: PathBuf,
    procdir: PathBuf,
}

fn layer_path(p: &Paths, layer: &str) -> PathBuf {
    match layer {
        "global_jsonc" => p.global_dir.join("config.jsonc"),
        "global_json" => p.global_dir.join("config.json"),
        "custom" => p.custom.clone(),
        "parent_jsonc" => p.parent.join("rip.jsonc"),
        "parent_json" => p.parent.join("rip.json"),
        "ws_jsonc" => p.ws.join("rip.jsonc"),
        _ => p.ws.join("rip.json"),
    }
}

#[derive(Debug, Clone)]
struct HitRec {
    canary: usize,
    surface: String,
    enc: String,
    partial: bool,
    location: String,
    excerpt: String,
}

fn scan_into(m: &Matcher, case: &Case, surface: &str, location: &str, bytes: &[u8], hits: &mut Vec<HitRec>) {
    for h in m.scan(bytes) {
        let n = &m.needles[h.needle];
        let marker = format!("SECRET {} as {}", case.canaries[n.canary].channel, n.enc);
        hits.push(HitRec {
            canary: n.canary,
            surface: surface.to_string(),
            enc: n.enc.clone(),
            partial: n.partial,
            location: location.to_string(),
            excerpt: excerpt(bytes, h.offset, n.bytes.len(), &marker),
        });
    }
}

fn file_surface(rel: &str, dumps: &BTreeSet<String>) -> String {
    if rel == "data/events.jsonl" {
        "event_log".into()
    } else if rel.starts_with("data/snapshots/") {
        "snapshot".into()
    } else if rel.starts_with("data/authority/") {
        "authority_file".into()
    } else if rel.starts_with("data/") {
        "cache_file".into()
    } else if let Some(id) = rel.strip_prefix("outer/proj/ws/.rip/artifacts/blobs/") {
        if dumps.contains(id) {
            "request_dump_artifact".into()
        } else {
            "artifact_blob".into()
        }
    } else if rel.starts_with("outer/proj/ws/.rip/") {
        "ws_rip_file".into()
    } else if rel.starts_with("outer/proj/ws/") {
        "workspace_file".into()
    } else if let Some(n) = rel.strip_prefix("proc/") {
        n.replace('.', "_")
    } else {
        "stray_file".into()
    }
}

async fn run_async(case: &Case) -> CaseReport {
    let mut rep = CaseReport::new();
    for l in &case.labels {
        rep.class(l.clone());
    }
    let bins = BINS.get().expect("bins");
    let header_echo = case.runs.iter().any(|r| r.outcome.echo >= 2);

    // ---- sandbox
    let sb = Scratch::new("c19");
    let root = sb.path().to_path_buf();
    let home = root.join("home");
    let p = Paths {
        global_dir: if case.global_via_home { home.join(".rip") } else { home.join("cfg") },
        home: home.clone(),
        custom: root.join("custom").join("rip-custom.jsonc"),
        parent: root.join("outer").join("proj"),
        ws: root.join("outer").join("proj").join("ws"),
        data: root.join("data"),
        cwd: root.join("cwd"),
        procdir: root.join("proc"),
    };
    for d in [&p.home, &p.global_dir, &root.join("custom"), &root.join("outer").join(".git"), &p.ws, &p.data, &p.cwd, &p.procdir, &home.join("xdg")] {
        let _ = std::fs::create_dir_all(d);
    }
    let _ = std::fs::write(p.ws.join("seed.txt"), "seed content line 1\nseed content line 2\n");

    // ---- scripted provider
    let outcomes: Vec<&gen::Outcome> = case.runs.iter().map(|r| &r.outcome).collect();
    let provider = Provider::start(script::script(&outcomes), script::fallback()).await;
    let e5 = format!("http://{}", provider.addr);
    let subst = |s: &str| s.replace("@E5@", &e5);

    // ---- config files (never scanned: the harness wrote the secret there itself)
    let mut own_files: BTreeSet<PathBuf> = BTreeSet::new();
    let mut has_custom = false;
    for f in &case.files {
        let path = layer_path(&p, &f.layer);
        if f.layer == "custom" {
            has_custom = true;
        }
        if let Some(parent) = path.parent() {
            let _ = std::fs::create_dir_all(parent);
        }
        let _ = std::fs::write(&path, subst(&f.text));
        own_files.insert(path);
    }

    // ---- environment: EMPTY + the case
    let mut env: Vec<(String, String)> = vec![
        ("PATH".into(), "/usr/local/bin:/usr/bin:/bin".into()),
        ("HOME".into(), p.home.display().to_string()),
        ("XDG_CONFIG_HOME".into(), home.join("xdg").display().to_string()),
        ("RIP_DATA_DIR".into(), p.data.display().to_string()),
        ("RIP_WORKSPACE_ROOT".into(), p.ws.display().to_string()),
        ("RIP_SERVER_ADDR".into(), "127.0.0.1:0".into()),
    ];
    if !case.global_via_home {
        env.push(("RIP_CONFIG_HOME".into(), p.global_dir.display().to_string()));
    }
    if has_custom {
        env.push(("RIP_CONFIG".into(), p.custom.display().to_string()));
    }
    for (k, v) in &case.env {
        env.push((k.clone(), subst(v)));
    }

    // ---- start the authority
    let (bin, args): (&Path, Vec<String>) = if case.launcher == "rip_serve" {
        (&bins.rip, vec!["serve".to_string()])
    } else {
        (&bins.ripd, Vec::new())
    };
    let meta_path = p.data.join("authority").join("meta.json");
    let mut child: Option<Proc> = None;
    let mut base: Option<String> = None;
    'attempts: for attempt in 0..3 {
        let _ = std::fs::remove_dir_all(p.data.join("authority"));
        let out = p.procdir.join("ripd.stdout");
        let err = p.procdir.join("ripd.stderr");
        let Ok(mut c) = Proc::spawn(bin, &args, &env, &p.cwd, &out, &err) else {
            continue;
        };
        let t0 = Instant::now();
        loop {
            if let Ok(s) = std::fs::read_to_string(&meta_path) {
                if let Ok(v) = serde_json::from_str::<Value>(&s) {
                    if let Some(ep) = v["endpoint"].as_str() {
                        base = Some(ep.to_string());
                        child = Some(c);
                        break 'attempts;
                    }
                }
            }
            if c.exited() {
                rep.count("authority_start_retries", 1);
                if debug() {
                    eprintln!("[c19] authority exited at start (attempt {attempt}): {}", std::fs::read_to_string(&err).unwrap_or_default());
                }
                break;
            }
            if t0.elapsed() > Duration::from_secs(40) {
                break;
            }
            tokio::time::sleep(Duration::from_millis(4)).await;
        }
    }
    let (Some(mut child), Some(base)) = (child, base) else {
        rep.inconclusive("authority_did_not_start");
        return rep;
    };
    let client = reqwest::Client::builder()
        .no_proxy()
        .pool_max_idle_per_host(0)
        .build()
        .expect("client");
    let http = Http { client: client.clone(), base: base.clone() };
    let mut bodies = Bodies::default();

    // ---- runs
    let mut thread_id: Option<String> = None;
    let mut sessions: Vec<String> = Vec::new();
    let mut run_meta: Vec<(bool /*thread*/, bool /*endpoint overridden*/)> = Vec::new();
    let mut thread_runs = 0usize;
    let mut aborted = false;
    for (i, plan) in case.runs.iter().enumerate() {
        rep.class(format!("outcome:{}", outcome_label(&plan.outcome)));
        let mut sid: Option<String> = None;
        match &plan.entry {
            Entry::Thread { overrides } => {
                rep.class(if overrides.is_some() { "entry:thread_post_with_overrides" } else { "entry:thread_post" });
                if thread_id.is_none() {
                    if let Some((_, b)) = http.post("/threads/ensure", None, "http:threads_ensure", &mut bodies).await {
                        thread_id = serde_json::from_slice::<Value>(&b).ok().and_then(|v| v["thread_id"].as_str().map(|s| s.to_string()));
                    }
                }
                let Some(tid) = thread_id.clone() else {
                    rep.inconclusive("no_thread");
                    aborted = true;
                    break;
                };
                let mut body = json!({"content": plan.prompt, "actor_id": "user", "origin": "c19"});
                let mut ep_overridden = false;
                if let Some(o) = overrides {
                    let mut m = serde_json::Map::new();
                    if let Some(ep) = &o.endpoint {
                        ep_overridden = true;
                        rep.class(format!("override_endpoint:{ep}"));
                        let url = match ep.as_str() {
                            "alt" => case.endpoint.replace("@E5@", &format!("{e5}/alt")),
                            "same" => subst(&case.endpoint),
                            _ => "http://127.0.0.1:1/v1/responses".to_string(),
                        };
                        m.insert("endpoint".into(), json!(url));
                    }
                    if let Some(v) = &o.model {
                        m.insert("model".into(), json!(v));
                        rep.class("override_model");
                    }
                    if let Some(v) = o.stateless_history {
                        m.insert("stateless_history".into(), json!(v));
                    }
                    if let Some(v) = o.parallel_tool_calls {
                        m.insert("parallel_tool_calls".into(), json!(v));
                    }
                    if let Some(v) = &o.followup_user_message {
                        m.insert("followup_user_message".into(), json!(v));
                    }
                    body["openresponses"] = Value::Object(m);
                }
                run_meta.push((true, ep_overridden));
                thread_runs += 1;
                let r = http.post(&format!("/threads/{tid}/messages"), Some(body), "http:thread_post_message", &mut bodies).await;
                sid = r.and_then(|(_, b)| serde_json::from_slice::<Value>(&b).ok()).and_then(|v| v["session_id"].as_str().map(|s| s.to_string()));
                if sid.is_none() {
                    rep.inconclusive("post_message_failed");
                    aborted = true;
                    break;
                }
            }
            Entry::SessionInput => {
                rep.class("entry:session_input");
                run_meta.push((false, false));
                let r = http.post("/sessions", None, "http:create_session", &mut bodies).await;
                sid = r.and_then(|(_, b)| serde_json::from_slice::<Value>(&b).ok()).and_then(|v| v["session_id"].as_str().map(|s| s.to_string()));
                let Some(s) = sid.clone() else {
                    rep.inconclusive("create_session_failed");
                    aborted = true;
                    break;
                };
                let _ = http.post(&format!("/sessions/{s}/input"), Some(json!({"input": plan.prompt})), "http:send_input", &mut bodies).await;
            }
            Entry::CliRun { view } => {
                rep.class(format!("entry:cli_run:{view}"));
                run_meta.push((true, false));
                thread_runs += 1;
                let args: Vec<String> = ["run", plan.prompt.as_str(), "--server", base.as_str(), "--headless", "true", "--view", view.as_str()]
                    .iter()
                    .map(|s| s.to_string())
                    .collect();
                let out = p.procdir.join(format!("cli_run{i}.stdout"));
                let err = p.procdir.join(format!("cli_run{i}.stderr"));
                match Proc::spawn(&bins.rip, &args, &env, &p.cwd, &out, &err) {
                    Ok(mut c) => {
                        if !c.wait_exit(Duration::from_secs(40)).await {
                            rep.inconclusive("cli_run_timeout");
                            aborted = true;
                            break;
                        }
                    }
                    Err(_) => {
                        rep.inconclusive("cli_spawn_failed");
                        aborted = true;
                        break;
                    }
                }
            }
        }
        if let Some(s) = &sid {
            sessions.push(s.clone());
            let (_, stopped) = http
                .sse(&format!("/sessions/{s}/events"), "sse:session_events", &mut bodies, Duration::from_secs(40), Duration::from_secs(40), session_ended_seen)
                .await;
            if !stopped {
                rep.inconclusive("session_end_not_seen");
                aborted = true;
                break;
            }
        }
        if !wait_quiescent(&p.data, Duration::from_secs(30)).await {
            rep.inconclusive("not_quiescent");
            aborted = true;
            break;
        }
        // keep the script aligned: unused positions of this run's slot are consumed by the harness
        let want = (i + 1) * SLOT;
        let mut guard = 0;
        while provider.recorded().len() < want && guard < SLOT + 1 {
            let _ = tokio::time::timeout(Duration::from_secs(5), async {
                if let Ok(r) = client.post(format!("{e5}/pad")).body("{}").send().await {
                    let _ = r.bytes().await;
                }
            })
            .await;
            guard += 1;
        }
        if provider.recorded().len() != want {
            rep.class("script_misaligned");
            rep.count("script_misaligned", 1);
            break;
        }
    }
    if aborted {
        return rep; // `child` is killed by its guard
    }

    // ---- diagnostic surfaces
    let doctor = http.get("/config/doctor", "http:config_doctor", &mut bodies).await;
    let _ = http.get("/openapi.json", "http:openapi", &mut bodies).await;
    let _ = http.get("/threads", "http:threads_list", &mut bodies).await;
    let _ = http.get("/tasks", "http:tasks_list", &mut bodies).await;
    if let Some(tid) = &thread_id {
        let _ = http.get(&format!("/threads/{tid}"), "http:thread_get", &mut bodies).await;
        for (path, surf) in [
            ("compaction-status", "http:compaction_status"),
            ("compaction-cut-points", "http:compaction_cut_points"),
            ("provider-cursor-status", "http:provider_cursor_status"),
            ("context-selection-status", "http:context_selection_status"),
        ] {
            let _ = http.post(&format!("/threads/{tid}/{path}"), Some(json!({})), surf, &mut bodies).await;
        }
        let want = thread_runs;
        let (_, stopped) = http
            .sse(&format!("/threads/{tid}/events"), "sse:thread_events", &mut bodies, Duration::from_secs(20), Duration::from_secs(3), move |b| {
                count(b, b"\"type\":\"continuity_run_ended\"") >= want && b.ends_with(b"\n\n")
            })
            .await;
        if !stopped {
            rep.count("thread_stream_read_by_idle_timeout", 1);
        }
    }
    for s in &sessions {
        let _ = http
            .sse(&format!("/sessions/{s}/events"), "sse:session_events_replay", &mut bodies, Duration::from_secs(20), Duration::from_secs(3), session_ended_seen)
            .await;
    }
    if case.cli_doctor {
        rep.class("cli_config_doctor");
        let args: Vec<String> = ["config", "--server", base.as_str(), "doctor"].iter().map(|s| s.to_string()).collect();
        if let Ok(mut c) = Proc::spawn(&bins.rip, &args, &env, &p.cwd, &p.procdir.join("cli_doctor.stdout"), &p.procdir.join("cli_doctor.stderr")) {
            if !c.wait_exit(Duration::from_secs(30)).await {
                rep.count("cli_doctor_timeout", 1);
            } else if std::fs::metadata(p.procdir.join("cli_doctor.stdout")).map(|m| m.len()).unwrap_or(0) == 0 {
                rep.count("cli_doctor_empty_output", 1);
            }
        }
    }

    // ---- oracle part 1: grep while the authority is alive (lock/meta files exist only now)
    let needles: Vec<enc::Needle> = case.canaries.iter().enumerate().flat_map(|(i, c)| needles_for(i, &c.value)).collect();
    rep.count("needles", needles.len() as u64);
    let matcher = Matcher::new(needles);
    let log = read_log(&p.data);
    let mut hits: Vec<HitRec> = Vec::new();
    let mut scanned_files = 0u64;
    let mut scanned_bytes = 0u64;
    let mut scan_tree = |hits: &mut Vec<HitRec>, phase: &str, only_prefix: Option<&str>| {
        let mut files = Vec::new();
        walk(&root, &mut files);
        for f in files {
            if own_files.contains(&f) {
                continue;
            }
            let rel = f.strip_prefix(&root).map(|r| r.display().to_string()).unwrap_or_default();
            if let Some(pre) = only_prefix {
                if !rel.starts_with(pre) {
                    continue;
                }
            }
            let bytes = std::fs::read(&f).unwrap_or_default();
            scanned_files += 1;
            scanned_bytes += bytes.len() as u64;
            let surface = file_surface(&rel, &log.dump_artifacts);
            scan_into(&matcher, case, &surface, &format!("{phase}:{rel}"), &bytes, hits);
        }
    };
    scan_tree(&mut hits, "live", Some("data/authority/"));

    // ---- stop
    drop(http);
    drop(client);
    let (clean, ms) = child.terminate(Duration::from_secs(10)).await;
    if !clean {
        rep.count("authority_killed_after_grace", 1);
    }
    rep.count("shutdown_ms", ms);

    // ---- oracle part 2: everything, after the stop
    scan_tree(&mut hits, "final", None);
    rep.count("files_scanned", scanned_files);
    rep.count("file_bytes_scanned", scanned_bytes);
    for (surface, b) in &bodies.items {
        rep.count("response_bytes_scanned", b.len() as u64);
        scan_into(&matcher, case, surface, surface, b, &mut hits);
    }

    // ---- positive control: which canaries did the provider receive?
    let recorded = provider.recorded();
    let mut delivered = vec![false; case.canaries.len()];
    let mut delivered_plain_thread: Vec<usize> = Vec::new();
    let mut real_requests = 0u64;
    for (idx, r) in recorded.iter().enumerate() {
        if r.path == "/pad" {
            continue;
        }
        real_requests += 1;
        let run_idx = idx / SLOT;
        for (ci, c) in case.canaries.iter().enumerate() {
            if r.headers.iter().any(|(_, v)| v.contains(&c.value)) {
                delivered[ci] = true;
                if let Some((true, false)) = run_meta.get(run_idx) {
                    if !delivered_plain_thread.contains(&ci) {
                        delivered_plain_thread.push(ci);
                    }
                }
            }
        }
    }
    rep.count("provider_requests", real_requests);
    let primary_delivered = case.canaries.iter().zip(&delivered).any(|(c, d)| c.primary && *d);
    for (c, d) in case.canaries.iter().zip(&delivered) {
        if c.primary && *d {
            rep.class(format!("delivered:{}", c.channel));
        } else if c.primary {
            rep.class(format!("not_delivered:{}", c.channel));
        } else if *d {
            rep.class(format!("decoy_delivered:{}", c.channel));
        }
    }
    if !primary_delivered {
        rep.class("secret_not_delivered");
    }

    // ---- observed outcome classes
    for reason in log.ended.values() {
        rep.class(format!("end:{reason}"));
    }
    rep.class_if(log.provider_error_frames > 0, "provider_error_frame_persisted");
    rep.class_if(log.tool_failed > 0, "tool_failure_frame");
    rep.class_if(!log.dump_artifacts.is_empty(), "request_dump_written");
    rep.count("request_dump_artifacts", log.dump_artifacts.len() as u64);
    rep.count("frames_in_log", log.frames);
    let error_path = log.provider_error_frames > 0 || log.tool_failed > 0 || log.ended.values().any(|r| r != "completed");

    // ---- /config/doctor: presence + source only
    let mut doctor_checked = false;
    if let Some((200, body)) = &doctor {
        if let Ok(v) = serde_json::from_slice::<Value>(body) {
            doctor_checked = true;
            let or = &v["openresponses"];
            // a thread post without endpoint override resolves exactly as the doctor does
            for ci in &delivered_plain_thread {
                let c = &case.canaries[*ci];
                if c.header.is_some() {
                    continue;
                }
                if or["has_api_key"] != json!(true) {
                    rep.fail(
                        format!("doctor|has_api_key_false|{}", c.channel),
                        json!({"doctor_openresponses": or, "note": "the provider received this key as Bearer in a run resolved with the same inputs"}),
                    );
                }
                let src = or["api_key_source"].as_str().unwrap_or("");
                let expect_env = c.planted_in.split("env:").nth(1).map(|s| s.to_string());
                let ok = match &expect_env {
                    Some(name) => src.contains(name.as_str()),
                    None => !src.is_empty(),
                };
                if !ok {
                    rep.fail(
                        format!("doctor|api_key_source_wrong|{}", c.channel),
                        json!({"api_key_source": src, "planted_in": c.planted_in}),
                    );
                }
                let exact = match &expect_env {
                    Some(name) => src == format!("env:{name}"),
                    None => src == "inline",
                };
                rep.count(if exact { "doctor_source_documented_form" } else { "doctor_source_other_form" }, 1);
            }
            if let Some(arr) = or["headers"].as_array() {
                for h in arr {
                    let ok = h.as_str().map(|s| case.header_names.iter().any(|n| n == s) || s == "x-unrouted").unwrap_or(false);
                    if !ok {
                        rep.fail("doctor|headers_entry_is_not_a_configured_name", json!({"entry_is_string": h.is_string(), "configured_names": case.header_names}));
                    }
                }
            }
            if let Some(srcs) = v["sources"].as_array() {
                for s in srcs {
                    if let Some(st) = s["status"].as_str() {
                        rep.class(format!("doctor_source_status:{}", st.split(':').next().unwrap_or("")));
                    }
                }
            }
        }
    }
    rep.class_if(doctor_checked, "doctor_checked");

    // ---- verdict
    let mut by_key: BTreeMap<(usize, String), Vec<&HitRec>> = BTreeMap::new();
    for h in &hits {
        by_key.entry((h.canary, h.surface.clone())).or_default().push(h);
    }
    for ((ci, surface), hs) in &by_key {
        let c = &case.canaries[*ci];
        let full: Vec<&&HitRec> = hs.iter().filter(|h| !h.partial).collect();
        let kind = if full.is_empty() { "leak_partial" } else { "leak" };
        let sample = full.first().map(|h| **h).unwrap_or(hs[0]);
        let encs: BTreeSet<&str> = hs.iter().filter(|h| !h.partial).map(|h| h.enc.as_str()).collect();
        if header_echo {
            rep.count("header_echo_hits", 1);
            rep.class(format!("header_echo_hit:{surface}"));
            continue;
        }
        if EXCLUDE_KNOWN {
            rep.count("excluded_known_leaks", 1);
            continue;
        }
        rep.fail(
            format!("{kind}|{}|{surface}", c.channel),
            json!({
                "channel": c.channel, "planted_in": c.planted_in, "alphabet": c.alphabet, "surface": surface,
                "encodings": encs, "location": sample.location, "excerpt_secret_redacted": sample.excerpt,
                "delivered_to_provider": delivered[*ci],
            }),
        );
    }
    if header_echo {
        rep.class("header_echo_case(out_of_domain,not_judged)");
        rep.class_if(hits.is_empty(), "header_echo_case_without_hit");
    }
    rep.nontrivial = primary_delivered && !header_echo && (error_path || case.dump_on || doctor_checked);
    rep.class_if(error_path, "error_path");

    if debug() {
        let mut files = Vec::new();
        walk(&root, &mut files);
        eprintln!(
            "[c19] labels={:?} delivered={:?} ends={:?} requests={} hits={} files={:?}",
            case.labels,
            delivered,
            log.ended,
            real_requests,
            hits.len(),
            files.iter().map(|f| f.strip_prefix(&root).unwrap_or(f).display().to_string()).collect::<Vec<_>>()
        );
        for h in hits.iter().take(5) {
            eprintln!("[c19]   hit {} {} {} {}", h.surface, h.enc, h.location, h.excerpt);
        }
        if let Some((_, b)) = &doctor {
            eprintln!("[c19]   doctor {}", String::from_utf8_lossy(b));
        }
        eprintln!("[c19]   stderr: {}", std::fs::read_to_string(p.procdir.join("ripd.stderr")).unwrap_or_default());
        for l in String::from_utf8_lossy(&std::fs::read(p.data.join("events.jsonl")).unwrap_or_default()).lines() {
            if l.contains("\"type\":\"provider_event\"") && !l.contains("\"errors\":[]") {
                eprintln!("[c19]   error frame: {}", &l.chars().take(600).collect::<String>());
            }
        }
        for f in ["cli_run0.stdout", "cli_run0.stderr", "cli_doctor.stdout", "cli_doctor.stderr"] {
            if let Ok(t) = std::fs::read_to_string(p.procdir.join(f)) {
                eprintln!("[c19]   {f}: {}", t.chars().take(400).collect::<String>());
            }
        }
        if let Some(keep) = std::env::var_os("C19_KEEP") {
            let _ = rv::engine::scratch::copy_dir(&root, Path::new(&keep));
        }
    }
    let _ = LAYERS;
    rep
}

fn outcome_label(o: &gen::Outcome) -> String {
    match (o.kind.as_str(), o.echo) {
        ("http_error", 0) => "http_error_plain".to_string(),
        ("http_error", 1) => "http_error_echo_body".to_string(),
        ("http_error", _) => "http_error_echo_headers".to_string(),
        ("malformed_response", _) => "transport_error_at_send".to_string(),
        ("drop", _) => if o.drop_after == 0 { "transport_drop_before_body".to_string() } else { "transport_drop_mid_stream".to_string() },
        (k, _) => k.to_string(),
    }
}

use proptest::prelude::*;
use serde::{Deserialize, Serialize};

include!("c19/shapes.rs");

fn main() {
    let ripd = std::env::var_os("C19_RIPD_BIN").map(PathBuf::from).unwrap_or_else(|| PathBuf::from("/verif/target/repo-bins/debug/ripd"));
    let rip = std::env::var_os("C19_RIP_BIN").map(PathBuf::from).unwrap_or_else(|| PathBuf::from("/verif/target/repo-bins/debug/rip"));
    let mut check = Check::new("C19", "exploration");
    if !ripd.exists() || !rip.exists() {
        println!("INCONCLUSIVE property=C19: repository binaries missing ({} / {})", ripd.display(), rip.display());
        std::process::exit(2);
    }
    let _ = BINS.set(Bins { ripd, rip });
    check.assume("the authority is the real ripd binary (or `rip serve`) built from the working tree, run as a subprocess with an empty environment plus the case's variables; the provider is the scripted loopback provider E5");
    check.assume("in-domain outcomes per the property's quantifier: success, provider HTTP error whose body echoes the request BODY, transport error, validation error, tool failure. A provider that echoes the request HEADERS back (echo_request=2) hands the secret to rip as provider output: those cases are run and their hits counted (header_echo_hits) but not judged");
    check.assume("never generated: tool commands that print their own environment or read the config files (the model's action on inherited state, not one of rip's formatting/dumping paths)");
    check.assume("OPENAI_API_KEY / OPENROUTER_API_KEY fallbacks are reached with a loopback endpoint whose path contains api.openai.com / openrouter.ai (config.rs matches by substring); the hosts themselves are unreachable here");
    check.assume("grep covers: raw, JSON-escaped (x1..x3, ASCII \\u forms), Rust {:?}, percent-encoded (3 styles), base64 std/url-safe with/without padding of the secret and of `Bearer <secret>`, base64 of the secret embedded at any offset of a larger blob, hex, and every 16-char fragment of the raw secret (reported as leak_partial)");
    let rule = "case = config layers (global via RIP_CONFIG_HOME or $HOME/.rip, RIP_CONFIG custom, project rip.json/rip.jsonc in the workspace or its parent; JSONC with comments/trailing commas) x key channel (inline per layer, {env:NAME}, RIP_OPENRESPONSES_API_KEY, OPENAI_/OPENROUTER_API_KEY, secret header value) x resolution mode (route by model / roles.primary, endpoint match with env endpoint, env only) x decoys (shadowed, unrouted provider, commented-out, unparsable file) x secret alphabet x dump on/off x 1-2 runs (thread post with/without per-request overrides, POST /sessions + input, `rip run` CLI) x scripted outcome. non-trivial = the provider received a primary secret AND the case is in-domain AND (an error path was persisted OR dumping was on OR /config/doctor was checked)";
    let n = check.cases(400, 6000);
    check.group("secrets", rule, GroupOpts { cases: n, watchdog_s: 400, max_shrink_iters: 30, ..Default::default() }, gen::case_strategy, run);
    let n = check.cases(160, 3000);
    check.group(
        "doctor_shapes",
        "case = one configuration layer (7 locations, JSON/JSONC) that is MISTYPED around the secret — 11 valid-JSON shapes (provider entry / provider map / api_key / header value of the wrong JSON type, headers as one curl-style string, file wrapped in an array, misspelt key names, key in roles.primary) and 4 syntax errors next to the secret (unterminated string, unquoted value, missing comma, trailing garbage) — x secret alphabet x optional well-formed neighbour layer x launcher; then GET /config/doctor, optionally `rip config doctor` and a thread run, SIGTERM, and the same grep over every response, process output and file (except the config files the harness wrote). non-trivial = the doctor answered or any response was received; distinct by case hash",
        GroupOpts { cases: n, watchdog_s: 400, max_shrink_iters: 20, ..Default::default() },
        shape_case_strategy,
        run_shape,
    );
    check.finish();
}
