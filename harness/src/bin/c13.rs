//! C13 — no path argument reaches outside the workspace root.
//!
//! Sandbox `base/outer/{.git/, sentinels with canary contents, ws/…}` + `base/elsewhere/…`.
//! One generated path string × one argument position × one process working directory per case.
//! Oracle: (i) everything under `base/` except `outer/ws/` is byte-identical afterwards;
//! (ii) no sentinel canary (content or file name) shows up in any emitted event or in any file
//! under `ws/` incl. `ws/.rip`; (iii) a lexically escaping path (absolute, or with a `..`
//! segment) is refused; (iv) a refused escaping request leaves `ws/` byte-identical incl.
//! `ws/.rip/checkpoints`.

use proptest::prelude::*;
use proptest::sample::select;
use rv::engine::runner::catch;
use rv::engine::{pick, CaseReport, Check, GroupOpts};
use rv::tree::{diff, Node};
use rv::engine::scratch::Scratch;
use rv::ws_common::{
    abs_inside, canaries_in, cwd, events_json, has_dotdot, is_abs, normalize_rel, CwdClass,
    Rig, Sandbox, Seen, SessionRig, SENTINELS,
};
use serde::{Deserialize, Serialize};
use serde_json::{json, Value};
use std::path::PathBuf;

/// F2: `write` (atomic, not append) with a path that resolves to the root itself leaves
/// `<root>.tmp-<uuid>` beside the root. Cases in exactly that region are skipped and counted.
const EXCLUDE_KNOWN_F2: bool = false;
/// F3-escape: `Workspace::create_checkpoint` (manual or automatic) given an escaping path
/// (absolute outside the root, or any `..` segment): not refused / reads outside / leaves
/// directories in the store before failing. Manual creates in the region are skipped;
/// `write` in the region runs through the hook-less runner (the tool's own resolver is still
/// exercised). Counted.
const EXCLUDE_KNOWN_F3_ESCAPE: bool = false;
/// F3-cwd: `Workspace::create_checkpoint` given a relative path while the process cwd is not the
/// root (existence and bytes are read relative to the cwd). Same treatment.
const EXCLUDE_KNOWN_F3_CWD: bool = false;
/// F20: the automatic checkpoint is taken from the raw `write` argument before the tool validates
/// it; an absolute path *inside* the root is accepted by create_checkpoint and then refused by the
/// tool, so a refused request leaves a checkpoint (or empty directories) in the store.
/// `write` in exactly that region runs through the hook-less runner. Counted.
const EXCLUDE_KNOWN_F20: bool = false;

const POSITIONS: &[&str] = &[
    "read.path",
    "write.path",
    "ls.path",
    "grep.path",
    "patch.add",
    "patch.delete",
    "patch.update",
    "patch.move_to",
    "cp.create.files",
    "cp.rewind.id",
    "bash.cwd",
];

#[derive(Debug, Clone, Serialize, Deserialize)]
struct Case {
    /// process working directory: root | outer | elsewhere
    cwd: String,
    /// argument position (one of POSITIONS)
    pos: String,
    /// the path string; `<ROOT> <OUTER> <ELSE> <ROOTREL> <OUTERREL>` expand to the sandbox
    /// locations (with / without the leading slash), `<CID>` to the id of the one real checkpoint
    path: String,
    /// generator label of the path (histogram only — the oracle re-derives everything from `path`)
    class: String,
    content: String,
    /// option bits, meaning depends on the position (see `run`)
    opt: u8,
    #[serde(default)]
    allow_known: bool,
}

// ------------------------------------------------------------------------------------------
// workspace tree
// ------------------------------------------------------------------------------------------

fn long_name(n: usize) -> String {
    let mut s = "L".repeat(n.saturating_sub(4));
    s.push_str(".txt");
    s
}

fn ws_tree() -> Vec<(String, Vec<u8>)> {
    vec![
        ("a.txt".into(), b"alpha\nbeta\ngamma\n".to_vec()),
        ("b.txt".into(), b"one\r\ntwo\r\n".to_vec()),
        ("sub/c.txt".into(), b"alpha\nc-line2".to_vec()),
        ("sub/deep/d.txt".into(), b"".to_vec()),
        ("sp ace.txt".into(), b"alpha\n".to_vec()),
        ("back\\slash.txt".into(), b"alpha\n".to_vec()),
        ("new\nline.txt".into(), b"alpha\n".to_vec()),
        ("\u{fc}n\u{ef}/\u{e9}.txt".into(), b"alpha\n".to_vec()),
        ("bin.dat".into(), vec![0xff, 0xfe, 0x00, 0x41]),
        (long_name(255), b"alpha\n".to_vec()),
        (".hidden/h.txt".into(), b"alpha\n".to_vec()),
    ]
}

// ------------------------------------------------------------------------------------------
// path grammar
// ------------------------------------------------------------------------------------------

const SEG_NAMES: &[&str] = &[
    "a.txt", "b.txt", "sub", "deep", "c.txt", "d.txt", "sp ace.txt", "back\\slash.txt",
    "new\nline.txt", "\u{fc}n\u{ef}", "\u{e9}.txt", "bin.dat", ".hidden", "h.txt", "new.txt",
    "newdir", "ws", "SENT_top.txt", "ws-evil", "sibling", "secret.txt", "data.txt", "cpstore",
    ".rip", "checkpoints", "s1", "files", "ws.tmp",
];

const SEG_ODD: &[&str] = &[
    "...", "..x", "x..", ".. ", " ..", "..\\", "..\\x", "%2e%2e", "~", "$HOME", "-", "*", "?",
    " ", "\t", "a.txt ", "\\", "\\..\\", "C:", "\u{2025}", "\u{ff0e}\u{ff0e}",
];

fn seg() -> BoxedStrategy<String> {
    prop_oneof![
        9 => select(SEG_NAMES).prop_map(|s| s.to_string()),
        3 => Just(".".to_string()),
        4 => Just("..".to_string()),
        2 => Just(String::new()),
        2 => select(SEG_ODD).prop_map(|s| s.to_string()),
        2 => rv::gen::text::text(6),
        1 => Just(long_name(255)),
        1 => Just(long_name(256)),
    ]
    .boxed()
}

/// targets reachable from `outer/` (sentinels, dirs, a missing name, and the way back in)
const OUT_TARGETS: &[&str] = &[
    "SENT_top.txt", "a.txt", "new.txt", "ws.tmp", "ws-evil/secret.txt", "ws-evil/a.txt", "ws-evil",
    "sibling/data.txt", "sibling", "sibling/sub/c.txt", "sub/c.txt", "cpstore", "cpstore/files/a.txt",
    "missing_out.txt", "", "ws/a.txt", "ws", "ws/new.txt",
];

const INSIDE: &[&str] = &[
    "a.txt", "b.txt", "sub/c.txt", "sub/deep/d.txt", "sub", "sub/", "sub/deep", "new.txt",
    "newdir/n.txt", "sp ace.txt", "back\\slash.txt", "new\nline.txt", "\u{fc}n\u{ef}/\u{e9}.txt",
    "bin.dat", ".hidden/h.txt", "./a.txt", "sub/./c.txt", "sub//c.txt", "a.txt/", "a.txt/x",
    ".rip", ".rip/checkpoints", "sub/new2.txt", "./new.txt", "deep/er/x.txt",
];

const ABS: &[&str] = &[
    "<OUTER>/SENT_top.txt", "<OUTER>/a.txt", "<OUTER>/new.txt", "<OUTER>", "<OUTER>/",
    "<OUTER>/ws-evil/secret.txt", "<OUTER>/sibling", "<OUTER>/missing_out.txt", "<OUTER>/sub/c.txt",
    "<ELSE>/a.txt", "<ELSE>", "<ELSE>/new.txt", "<ROOT>", "<ROOT>/", "<ROOT>/.", "<ROOT>/a.txt",
    "<ROOT>/sub/c.txt", "<ROOT>/new.txt", "<ROOT>/sub", "<ROOT>/../SENT_top.txt", "<ROOT>/../a.txt",
    "<ROOT>/sub/../../a.txt", "<ROOT>/../ws/a.txt", "<ROOT>/sub/../a.txt", "<ROOT>-evil/secret.txt",
    "<ROOT>-evil/a.txt", "<ROOT>.tmp", "/<ROOT>/a.txt", "<ROOT>//a.txt", "<ROOT>/./a.txt",
    "/nonexistent-rv/x.txt", "<OUTER>/ws/a.txt", "<OUTER>/./ws/a.txt", "<OUTER>/ws/../a.txt",
    "<OUTER>/cpstore", "<ROOT>/.rip/checkpoints", "//<OUTERREL>/SENT_top.txt",
];

const ROOT_ITSELF: &[&str] = &["", ".", "./", ".//", "./.", "././", ".//.", "sub/..", "a.txt/..", "sub/deep/../.."];

const CWD_BAIT: &[&str] = &[
    "SENT_top.txt", "ws/a.txt", "ws-evil/secret.txt", "ws", "sibling", "sibling/data.txt",
    "cpstore/files/a.txt", "a.txt", "b.txt", "new.txt", "sub/c.txt", "sub/new2.txt", "./a.txt",
    "./new.txt",
];

const REWIND_IDS: &[&str] = &[
    "<CID>", "<CID>", "<CID>", "<CID>/", "./<CID>", "<CID>/.", "../s1/<CID>", "<CID>/../<CID>", "<ROOT>/.rip/checkpoints/s1/<CID>",
    "../../../../cpstore", "../../../../cpstore/", "<OUTER>/cpstore", "../../../../../outer/cpstore",
    "../../../../cpstore/.", "./../../../../cpstore", "../../../../../outer/./cpstore", "<OUTER>/cpstore/",
    "../../../..//cpstore", "<CID>/../../../../../cpstore",
    "", ".", "..", "no-such", "<CID>x", " <CID>", "<CID> ", "<CID>\n", "<CID>\u{0}", "cpstore", "s1",
    "../s1", "files", "<CID>/files", "../../checkpoints/s1/<CID>",
];

fn path_strategy() -> BoxedStrategy<(String, String)> {
    let prefixes: &[(&str, usize)] = &[
        ("", 0), ("sub/", 1), ("sub/deep/", 2), ("./", 0), ("newdir/", 1), ("a.txt/", 1), (".rip/", 1),
        ("sub/./", 1), ("sub//", 1),
    ];
    let prefixes = prefixes.to_vec();
    prop_oneof![
        // random segments, relative
        10 => (proptest::collection::vec(seg(), 1..=5), select(vec!["", "", "/", "//", "/."]))
            .prop_map(|(segs, trail)| (format!("{}{}", segs.join("/"), trail), "random_rel".to_string())),
        // random segments below one of the absolute anchors
        3 => (select(vec!["<ROOT>", "<OUTER>", "<ELSE>", "/<ROOT>", "<ROOT>/", "/nonexistent-rv"]),
              proptest::collection::vec(seg(), 0..=4), select(vec!["", "/"]))
            .prop_map(|(lead, segs, trail)| (format!("{}/{}{}", lead, segs.join("/"), trail), "random_abs".to_string())),
        // targeted relative escapes: <inside prefix> + k×".." + <target relative to outer/>
        9 => (select(prefixes), 0usize..=2, select(OUT_TARGETS), select(vec!["", "", "/"]))
            .prop_map(|((pre, depth), short, target, trail)| {
                // ups = depth+1 escapes exactly to outer/; fewer stays inside but still has ".."
                let ups = (depth + 1).saturating_sub(short).max(1);
                (format!("{}{}{}{}", pre, "../".repeat(ups), target, trail),
                 if ups > depth { "escape_rel".to_string() } else { "dotdot_stays_inside".to_string() })
            }),
        6 => select(ABS).prop_map(|s| (s.to_string(), "abs_fixed".to_string())),
        // k×".." followed by the absolute components of a location (lands on it once k reaches /)
        // (k <= 10 stays inside the case's scratch directory from anywhere in the sandbox; 20 and
        // 40 are clamped at / and land exactly on the location)
        3 => (prop_oneof![3 => 0usize..=10, 1 => Just(20usize), 1 => Just(40usize)],
              select(vec!["<OUTERREL>", "<ROOTREL>"]), select(OUT_TARGETS))
            .prop_map(|(k, anchor, target)| (format!("{}{}/{}", "../".repeat(k), anchor, target), "chain_abs".to_string())),
        4 => select(ROOT_ITSELF).prop_map(|s| (s.to_string(), "root_itself".to_string())),
        6 => select(INSIDE).prop_map(|s| (s.to_string(), "inside".to_string())),
        3 => select(CWD_BAIT).prop_map(|s| (s.to_string(), "cwd_bait".to_string())),
        // very long (around PATH_MAX)
        3 => (0u8..5, 0usize..=8).prop_map(|(kind, d)| {
            let p = match kind {
                0 => format!("{}a.txt", "./".repeat(2036 + d)),
                1 => format!("{}a.txt", format!("{}/", long_name(255)).repeat(15)),
                2 => format!("{}../SENT_top.txt", "sub/../".repeat(570 + d)),
                3 => format!("{}<OUTERREL>/SENT_top.txt", "../".repeat(1330 + d)),
                _ => format!("<ROOT>/{}a.txt", "./".repeat(2020 + d)),
            };
            (p, "long".to_string())
        }),
        3 => rv::gen::text::text(14).prop_map(|s| (s, "unicode_raw".to_string())),
    ]
    .boxed()
}

fn case_strategy() -> BoxedStrategy<Case> {
    (
        select(vec!["root", "root", "outer", "elsewhere"]),
        0..POSITIONS.len(),
        path_strategy(),
        any::<u16>(),
        "[a-z ]{0,12}",
        any::<u8>(),
        0u8..100,
    )
        .prop_map(|(cwd, pos_i, (mut path, mut class), alt, content, opt, steer)| {
            let pos = POSITIONS[pos_i].to_string();
            if pos == "cp.rewind.id" && steer < 55 {
                path = REWIND_IDS[pick(alt, REWIND_IDS.len())].to_string();
                class = "rewind_id_fixed".to_string();
            }
            if (EXCLUDE_KNOWN_F3_ESCAPE || EXCLUDE_KNOWN_F3_CWD) && pos == "cp.create.files" && steer < 80 {
                // keep most manual creates out of the known-finding region: absolute inside the
                // root (cwd-independent), or relative when the cwd is the root
                let rel = INSIDE[pick(alt, INSIDE.len())];
                if cwd == "root" && steer % 2 == 0 {
                    path = rel.to_string();
                    class = "inside".to_string();
                } else {
                    path = format!("<ROOT>/{rel}");
                    class = "abs_inside_steered".to_string();
                }
            }
            Case {
                cwd: cwd.to_string(),
                pos,
                path,
                class,
                content,
                opt,
                allow_known: false,
            }
        })
        .boxed()
}

// ------------------------------------------------------------------------------------------
// the case
// ------------------------------------------------------------------------------------------

const BASH_CMD: &str = "pwd; cat SENT_top.txt secret.txt data.txt a.txt 2>/dev/null; ls; echo marker > rv_marker.txt";

struct PathFacts {
    /// lexical class that the property says must be refused, if any
    must_refuse: Option<&'static str>,
    /// label used in signatures when the path is not in a must-refuse class
    kind: &'static str,
}

fn facts(case: &Case, sb: &Sandbox, p: &str, cid: &str) -> PathFacts {
    let cwd_ne_root = CwdClass::parse(&case.cwd) != CwdClass::Root;
    let rel_kind = |q: &str| -> &'static str {
        let to_root = normalize_rel(q).as_deref() == Some("");
        if to_root && (case.pos == "write.path" || !cwd_ne_root) {
            "resolves_to_root"
        } else if cwd_ne_root {
            "relative_cwd_ne_root"
        } else {
            "relative"
        }
    };
    let lexical = |q: &str| -> Option<&'static str> {
        if is_abs(q) {
            if has_dotdot(q) || abs_inside(&sb.root, q).is_none() {
                Some("abs_outside")
            } else {
                Some("abs_inside")
            }
        } else if has_dotdot(q) {
            Some("dotdot")
        } else {
            None
        }
    };
    match case.pos.as_str() {
        "cp.rewind.id" => {
            if p == cid {
                PathFacts { must_refuse: None, kind: "exact_id" }
            } else {
                PathFacts { must_refuse: Some("invalid_id"), kind: "invalid_id" }
            }
        }
        "cp.create.files" => {
            // absolute paths inside the root are how ripd's own callers and tests name files;
            // the docs do not say they are refused, so no verdict on refusal for them
            let m = if has_dotdot(p) {
                Some(if is_abs(p) { "abs_outside" } else { "dotdot" })
            } else if is_abs(p) && abs_inside(&sb.root, p).is_none() {
                Some("abs_outside")
            } else {
                None
            };
            PathFacts {
                must_refuse: m,
                kind: m.unwrap_or(if is_abs(p) { "abs_inside" } else { rel_kind(p) }),
            }
        }
        pos if pos.starts_with("patch.") => {
            // the parser takes the rest of the header line and trims it
            let first = p.split('\n').next().unwrap_or("");
            let eff = first.trim();
            let m = lexical(eff);
            PathFacts { must_refuse: m, kind: m.unwrap_or(rel_kind(eff)) }
        }
        _ => {
            let m = lexical(p);
            PathFacts { must_refuse: m, kind: m.unwrap_or(rel_kind(p)) }
        }
    }
}

fn where_of(rel: &str) -> &'static str {
    if rel == ".rip/checkpoints" || rel.starts_with(".rip/checkpoints/") {
        "checkpoint_store"
    } else {
        "workspace"
    }
}

thread_local! {
    static TASK_RT: tokio::runtime::Runtime = rv::runs::runtime(2);
}

/// POST /tasks on a router over `root` (fresh data dir outside the sandbox), then the task's SSE
/// stream up to its terminal status. `Some(vec![])` = the request was rejected; None = no terminal
/// status within the wait (no verdict).
fn task_frames_of(root: &std::path::Path, tool: &str, args: Value) -> Option<Vec<Value>> {
    use axum::http::Method;
    let data = Scratch::new("c13t-data");
    TASK_RT.with(|rt| {
        rt.block_on(async {
            let router = ripd::verif::build_router(data.path().to_path_buf(), root.to_path_buf(), None, false);
            let (st, v) = rv::http::call_json(&router, Method::POST, "/tasks", Some(json!({"tool": tool, "args": args, "title": "c13"}))).await;
            let Some(id) = v["task_id"].as_str().map(|s| s.to_string()) else {
                let _ = st;
                return Some(Vec::new());
            };
            let terminal = |p: &[String]| {
                p.last().map(|l| l.contains("\"tool_task_status\"") && (l.contains("\"exited\"") || l.contains("\"failed\"") || l.contains("\"cancelled\""))).unwrap_or(false)
            };
            let (_s, payloads, _) = rv::http::sse_collect(&router, &format!("/tasks/{id}/events"), std::time::Duration::from_secs(20), terminal).await;
            let frames: Vec<Value> = payloads.iter().filter_map(|p| serde_json::from_str(p).ok()).collect();
            let done = frames.iter().any(|v| v["type"] == "tool_task_status" && matches!(v["status"].as_str(), Some("exited") | Some("failed") | Some("cancelled")));
            drop(router);
            tokio::time::sleep(std::time::Duration::from_millis(3)).await;
            if done {
                Some(frames)
            } else {
                None
            }
        })
    })
}

fn task_case_strategy() -> BoxedStrategy<Case> {
    case_strategy()
        .prop_map(|mut c| {
            if c.pos == "cp.rewind.id" || c.path.contains("<CID>") {
                c.path = "sub".to_string();
                c.class = "inside".to_string();
            }
            c.pos = "task.cwd".to_string();
            c
        })
        .boxed()
}

/// Run the case. A violation seen while a file tool ran through the hooked runner is attributed
/// by a differential: the same case is run again on a fresh sandbox through the hook-less runner;
/// what disappears came from the automatic checkpoint (`create_checkpoint` given the tool's raw
/// argument) and is reported as `cpcreate|via=<position>|…`, what stays belongs to the tool.
fn run(case: &Case) -> CaseReport {
    let (mut rep, hooked) = run_inner(case, false, false);
    if hooked {
        reattribute(case, &mut rep);
    }
    rep
}

struct SessionEnv {
    sb: Sandbox,
    _data: Scratch,
    rig: Option<SessionRig>,
}

impl SessionEnv {
    fn new() -> SessionEnv {
        let sb = Sandbox::new("c13s", &ws_tree());
        let data = Scratch::new("c13s-data");
        let rig = SessionRig::new(&sb.root, data.path()).ok();
        SessionEnv { sb, _data: data, rig }
    }
}

thread_local! {
    static SESSION_ENV: std::cell::RefCell<Option<std::rc::Rc<SessionEnv>>> = const { std::cell::RefCell::new(None) };
}

/// The same case as a session input envelope through `ripd::SessionEngine` (real hook). A case in
/// a known-finding region is skipped here (there is no hook-less engine to step around it).
fn run_session(case: &Case) -> CaseReport {
    let (mut rep, _) = run_inner(case, false, true);
    reattribute(case, &mut rep);
    rep
}

fn reattribute(case: &Case, rep: &mut CaseReport) {
    let tool_pos = case.pos != "cp.create.files" && case.pos != "cp.rewind.id";
    if rep.fails.is_empty() || !tool_pos {
        return;
    }
    let (bare, _) = run_inner(case, true, false);
    for f in rep.fails.iter_mut() {
        if !bare.fails.iter().any(|b| b.sig == f.sig) {
            let rest = f.sig.splitn(2, '|').nth(1).unwrap_or("").to_string();
            f.sig = format!("cpcreate|via={}|{rest}", case.pos);
        }
    }
}

fn run_inner(case: &Case, force_bare: bool, session: bool) -> (CaseReport, bool) {
    let mut rep = CaseReport::new();
    let cwd_class = CwdClass::parse(&case.cwd);
    // session mode keeps one sandbox location + engine per shard thread (building an engine costs
    // ~40 ms of TLS root-store loading in reqwest) and rebuilds the tree for every case
    let owned;
    let senv: Option<std::rc::Rc<SessionEnv>>;
    let sb: &Sandbox = if session {
        senv = Some(SESSION_ENV.with(|c| {
            c.borrow_mut()
                .get_or_insert_with(|| std::rc::Rc::new(SessionEnv::new()))
                .clone()
        }));
        let e = senv.as_ref().unwrap();
        e.sb.repopulate(&ws_tree());
        &e.sb
    } else {
        owned = Sandbox::new("c13", &ws_tree());
        senv = None;
        &owned
    };
    let mut rig = Rig::new(&sb.root);
    let ex_f2 = excluded(EXCLUDE_KNOWN_F2, "F2") && !case.allow_known;
    let ex_f3_escape = excluded(EXCLUDE_KNOWN_F3_ESCAPE, "F3_ESCAPE") && !case.allow_known;
    let ex_f3_cwd = excluded(EXCLUDE_KNOWN_F3_CWD, "F3_CWD") && !case.allow_known;
    let ex_f20 = excluded(EXCLUDE_KNOWN_F20, "F20") && !case.allow_known;

    // one real checkpoint (absolute path: independent of cwd) for the rewind-id position
    let mut cid = String::from("<no-checkpoint>");
    if case.pos == "cp.rewind.id" && !session {
        let ev = rig.create_checkpoint("setup", vec![sb.root.join("a.txt")]);
        if let Some((_, id, _, _)) = Seen::of(&ev).created.first() {
            cid = id.clone();
        }
        let _ = std::fs::write(sb.root.join("a.txt"), b"alpha\nedited after the checkpoint\n");
    }
    let p = sb.subst(&case.path).replace("<CID>", &cid);
    let f = facts(case, &sb, &p, &cid);

    rep.class(format!("pos:{}", case.pos));
    rep.class(format!("cwd:{}", case.cwd));
    rep.class(format!("class:{}", case.class));
    rep.class(format!("kind:{}", f.kind));
    rep.nontrivial = has_dotdot(&p)
        || is_abs(&p)
        || normalize_rel(&p).as_deref() == Some("")
        || cwd_class != CwdClass::Root;

    let o = case.opt;
    let bit = |n: u8| o & (1 << n) != 0;

    // ---- known-finding regions (by construction)
    let region_escape = matches!(f.must_refuse, Some("abs_outside") | Some("dotdot"));
    let region_cwd = !is_abs(&p) && cwd_class != CwdClass::Root;
    let region_f20 = f.must_refuse == Some("abs_inside");
    let mut hooked = !force_bare;
    match case.pos.as_str() {
        "write.path" => {
            let atomic_plain = !bit(0) && !bit(1);
            if ex_f2 && normalize_rel(&p).as_deref() == Some("") && atomic_plain {
                rep.count("excluded_known_F2_write_resolves_to_root", 1);
                rep.class("excluded:F2");
                return (rep, false);
            }
            if ex_f3_escape && region_escape {
                hooked = false;
                rep.count("excluded_known_F3_escape_auto_checkpoint_bypassed", 1);
            } else if ex_f3_cwd && region_cwd {
                hooked = false;
                rep.count("excluded_known_F3_cwd_auto_checkpoint_bypassed", 1);
            } else if ex_f20 && region_f20 {
                hooked = false;
                rep.count("excluded_known_F20_auto_checkpoint_bypassed", 1);
            }
        }
        pos if pos.starts_with("patch.") => {
            // an escaping path makes the patch unparsable, so the hook is never reached for it;
            // only the cwd region applies
            if ex_f3_cwd && cwd_class != CwdClass::Root {
                hooked = false;
                rep.count("excluded_known_F3_cwd_auto_checkpoint_bypassed", 1);
            }
        }
        "cp.create.files" => {
            if ex_f3_escape && region_escape {
                rep.count("excluded_known_F3_escape_manual_create_skipped", 1);
                rep.class("excluded:F3_escape");
                return (rep, false);
            }
            if ex_f3_cwd && region_cwd {
                rep.count("excluded_known_F3_cwd_manual_create_skipped", 1);
                rep.class("excluded:F3_cwd");
                return (rep, false);
            }
        }
        _ => {}
    }
    if session && !hooked {
        rep.class("excluded:session_in_known_region");
        return (rep, false);
    }
    rep.class(if session { "runner:session" } else if hooked { "runner:hooked" } else { "runner:bare" });
    let srig = senv.as_ref().and_then(|e| e.rig.as_ref());
    if session && srig.is_none() {
        rep.class("session_unavailable");
        rep.count("session_unavailable", 1);
        return (rep, false);
    }
    let timed_out = std::cell::Cell::new(false);

    // ---- run the operation
    let _cwd = cwd::enter(sb.cwd_dir(cwd_class));
    let pre_out = sb.outside();
    let pre_ws = sb.ws_all();
    let pos = case.pos.as_str();
    let content = case.content.clone();
    let root = sb.root.clone();
    // build the request once; it is then sent either through ToolRunner (+ hook) directly or
    // as a session input envelope through ripd's SessionEngine (the real WorkspaceCheckpointHook)
    enum Op {
        Tool(&'static str, Value),
        Create(Vec<String>),
        Rewind(String),
    }
    let root_s = root.to_string_lossy().into_owned();
    let op = match pos {
        "read.path" => Op::Tool("read", json!({"path": p})),
        "write.path" => {
            let mut args = json!({"path": p, "content": content});
            if bit(0) {
                args["append"] = json!(true);
            }
            if bit(1) {
                args["atomic"] = json!(false);
            }
            if bit(7) && bit(6) {
                args["create"] = json!(false);
            }
            Op::Tool("write", args)
        }
        "ls.path" => Op::Tool(
            "ls",
            json!({"path": p, "recursive": bit(2), "include_hidden": bit(3)}),
        ),
        "grep.path" => Op::Tool(
            "grep",
            json!({"pattern": "CANARY|alpha", "path": p, "include_hidden": bit(2)}),
        ),
        "patch.add" | "patch.delete" | "patch.update" | "patch.move_to" => {
            let mut t = String::from("*** Begin Patch\n");
            if bit(3) {
                t.push_str("*** Add File: rv_ok_before.txt\n+ok\n");
            }
            match pos {
                "patch.add" => t.push_str(&format!("*** Add File: {p}\n+{content}\n")),
                "patch.delete" => t.push_str(&format!("*** Delete File: {p}\n")),
                "patch.update" => {
                    t.push_str(&format!("*** Update File: {p}\n"));
                    if bit(4) {
                        t.push_str("*** Move to: rv_moved.txt\n");
                    }
                    t.push_str("@@\n-alpha\n+ALPHA\n");
                }
                _ => t.push_str(&format!(
                    "*** Update File: a.txt\n*** Move to: {p}\n@@\n-alpha\n+ALPHA\n"
                )),
            }
            if bit(5) {
                t.push_str("*** Add File: rv_ok_after.txt\n+ok\n");
            }
            t.push_str("*** End Patch");
            Op::Tool("apply_patch", json!({"patch": t}))
        }
        "cp.create.files" => {
            let mut files = Vec::new();
            if bit(5) {
                files.push(format!("{root_s}/b.txt"));
            }
            files.push(p.clone());
            if bit(6) && bit(5) {
                files.push(format!("{root_s}/sub/c.txt"));
            }
            Op::Create(files)
        }
        "cp.rewind.id" => Op::Rewind(p.clone()),
        _ => Op::Tool(
            if bit(6) { "shell" } else { "bash" },
            json!({"command": BASH_CMD, "cwd": p}),
        ),
    };
    let task_frames: std::cell::RefCell<Vec<Value>> = std::cell::RefCell::new(Vec::new());
    let result = catch(|| -> Vec<rip_kernel::Event> {
        if pos == "task.cwd" {
            // a background task through the real router: `cwd` goes through the task engine's own
            // resolver (tasks/logs.rs), which no tool call reaches
            let Op::Tool(name, args) = &op else { return Vec::new() };
            match task_frames_of(&root, name, args.clone()) {
                Some(frames) => {
                    let evs = frames.iter().filter_map(|v| serde_json::from_value::<rip_kernel::Event>(v.clone()).ok()).collect();
                    *task_frames.borrow_mut() = frames;
                    evs
                }
                None => {
                    timed_out.set(true);
                    Vec::new()
                }
            }
        } else if session {
            let input = match &op {
                Op::Tool(name, args) => json!({"tool": name, "args": args}),
                Op::Create(files) => {
                    json!({"checkpoint": {"action": "create", "label": "manual", "files": files}})
                }
                Op::Rewind(id) => json!({"checkpoint": {"action": "rewind", "id": id}}),
            };
            match srig.expect("session rig").input(input.to_string()) {
                Ok(ev) => ev,
                Err(_) => {
                    timed_out.set(true);
                    Vec::new()
                }
            }
        } else {
            match &op {
                Op::Tool(name, args) => rig.tool(hooked, name, args.clone()),
                Op::Create(files) => {
                    rig.create_checkpoint("manual", files.iter().map(PathBuf::from).collect())
                }
                Op::Rewind(id) => rig.rewind(id),
            }
        }
    });
    if timed_out.get() {
        // the session did not end within the (generous) wait: no verdict for this case
        rep.class("session_wait_expired");
        rep.count("session_wait_expired", 1);
        return (rep, hooked);
    }
    let events = match result {
        Ok(ev) => ev,
        Err(panic) => {
            // a panic is not a verdict of this property by itself; the file-system oracles below
            // still apply to whatever happened before it
            rep.class("panic");
            rep.count("panics", 1);
            let _ = panic;
            Vec::new()
        }
    };
    let seen = Seen::of(&events);
    let post_out = sb.outside();
    let post_ws = sb.ws_all();

    let refused = match pos {
        "cp.create.files" => seen.created.is_empty() && !seen.create_failed.is_empty(),
        "cp.rewind.id" => seen.rewound.is_empty() && !seen.rewind_failed.is_empty(),
        "task.cwd" => {
            // refused = the request was rejected, or the stream ends in `failed` without the
            // process ever producing output
            let fr = task_frames.borrow();
            fr.is_empty()
                || (!fr.iter().any(|v| v["type"] == "tool_task_output_delta")
                    && fr.iter().any(|v| v["type"] == "tool_task_status" && v["status"] == "failed"))
        }
        _ => seen.tool_refused() || events.is_empty(),
    };
    rep.class(if refused { "outcome:refused" } else { "outcome:accepted" });
    let kind = f.kind;
    let detail = |extra: Value| -> Value {
        json!({"pos": case.pos, "cwd": case.cwd, "path": clip(&p), "kind": kind,
               "refused": refused, "stderr": seen.stderr, "tool_failed": seen.tool_failed,
               "create_failed": seen.create_failed, "rewind_failed": seen.rewind_failed,
               "more": extra})
    };
    // signature head: the position, or `cpcreate|via=<position>` for checkpoint creation
    let op_for = |_where: &str| -> String {
        if pos == "cp.create.files" {
            format!("cpcreate|via={pos}")
        } else {
            pos.to_string()
        }
    };

    // (i) nothing outside changed
    if post_out != pre_out {
        let op = op_for("outside");
        rep.fail(
            format!("{op}|outside_modified|{kind}"),
            detail(json!({"diff": diff(&pre_out, &post_out)})),
        );
    }

    // (ii) no canary reached an output or a file in the workspace
    let ev_json = events_json(&events);
    let leaked = canaries_in(ev_json.as_bytes());
    if !leaked.is_empty() {
        let op = op_for("output");
        rep.fail(
            format!("{op}|outside_read_leak_in_output|{kind}"),
            detail(json!({"canaries": leaked})),
        );
    }
    for (rel, node) in &post_ws {
        let mut hit = canaries_in(rel.as_bytes());
        if let Node::File(bytes) = node {
            hit.extend(canaries_in(bytes));
        }
        if !hit.is_empty() && pre_ws.get(rel) != Some(node) {
            let w = where_of(rel);
            let op = op_for(w);
            rep.fail(
                format!("{op}|outside_read_leak_into_{w}|{kind}"),
                detail(json!({"file": clip(rel), "canaries": hit})),
            );
        }
    }

    // (iii) escaping paths are refused; (iv) and leave no trace
    if let Some(m) = f.must_refuse {
        rep.class("must_refuse");
        if !refused {
            let op = op_for("");
            rep.fail(format!("{op}|not_refused|{m}"), detail(json!({})));
        } else if pos == "task.cwd"
            && post_ws.iter().filter(|(k, v)| pre_ws.get(*k) != Some(v)).all(|(k, v)| {
                k == ".rip" || k == ".rip/artifacts" || k == ".rip/artifacts/blobs" || (k.starts_with(".rip/artifacts/blobs/") && matches!(v, Node::File(b) if b.is_empty()))
            })
            && pre_ws.keys().all(|k| post_ws.contains_key(k))
        {
            // a task whose cwd is refused is still a task (docs: a lone `failed` status): its two
            // EMPTY log blobs under .rip/artifacts/blobs are part of that entity, not a side effect
            // of the path. Counted, not reported; anything else in the workspace still is.
            if post_ws != pre_ws {
                rep.count("refused_task_left_empty_log_blobs", 1);
            }
        } else if post_ws != pre_ws {
            let d = diff(&pre_ws, &post_ws);
            let in_store = post_ws
                .iter()
                .filter(|(k, v)| pre_ws.get(*k) != Some(v))
                .map(|(k, _)| k)
                .chain(pre_ws.keys().filter(|k| !post_ws.contains_key(*k)))
                .all(|k| where_of(k) == "checkpoint_store");
            let w = if in_store { "checkpoint_store" } else { "workspace" };
            let op = op_for(w);
            rep.fail(
                format!("{op}|refused_but_side_effect_in_{w}|{m}"),
                detail(json!({"diff": d})),
            );
        }
    } else if pos == "cp.rewind.id" && !refused {
        // sanity of the position: the exact id rewinds and restores the file
        if std::fs::read(sb.root.join("a.txt")).ok().as_deref() != Some(b"alpha\nbeta\ngamma\n".as_slice()) {
            rep.fail("cp.rewind.id|exact_id_did_not_restore|exact_id", detail(json!({})));
        }
    }

    // a checkpoint that was created is then rewound after the outside world changed: whatever
    // the checkpoint recorded, the rewind must not touch anything outside the root
    if pos == "cp.create.files" && bit(4) && !session {
        if let Some((_, id, _, _)) = seen.created.first() {
            for (rel, _) in SENTINELS {
                let sp = sb.base.join(rel);
                if let Ok(mut b) = std::fs::read(&sp) {
                    b.extend_from_slice(b"changed-by-someone-else\n");
                    let _ = std::fs::write(&sp, b);
                }
            }
            let _ = std::fs::write(sb.outer.join("missing_out.txt"), b"created-by-someone-else\n");
            let pre2 = sb.outside();
            let id = id.clone();
            let ev2 = catch(|| rig.rewind(&id)).unwrap_or_default();
            let post2 = sb.outside();
            rep.class("create_then_rewind");
            if post2 != pre2 {
                rep.fail(
                    format!("cpcreate|via={pos}|outside_modified_by_rewind|{kind}"),
                    detail(json!({"diff": diff(&pre2, &post2), "rewind_events": events_json(&ev2)})),
                );
            }
        }
    }
    (rep, hooked)
}

/// The exclusion constants can be switched off for one run without recompiling
/// (`VERIF_NO_EXCLUDE=all` or a comma list such as `F2,F3_CWD`): used to confirm that a fix
/// makes an exclusion unnecessary before the constant is flipped.
fn excluded(flag: bool, name: &str) -> bool {
    if !flag {
        return false;
    }
    match std::env::var("VERIF_NO_EXCLUDE") {
        Ok(v) => !(v == "all" || v.split(',').any(|x| x.trim() == name)),
        Err(_) => true,
    }
}

fn clip(s: &str) -> String {
    if s.len() <= 300 {
        s.to_string()
    } else {
        let mut cut = 300;
        while !s.is_char_boundary(cut) {
            cut -= 1;
        }
        format!("{}…[{} bytes]", &s[..cut], s.len())
    }
}

fn main() {
    let mut check = Check::new("C13", "exploration");
    if let Some(p) = check.args.replay.clone() {
        if let Ok(abs) = std::fs::canonicalize(&p) {
            check.args.replay = Some(abs);
        }
    }
    cwd::init_neutral();
    check.assume("trees contain no pre-existing symlinks (the property quantifies over path strings and working directories, not over hostile trees)");
    check.assume("reads of parent .gitignore/.ignore files by the `ignore` crate walker behind ls/grep are not driven by a path argument and are not observable without syscall tracing: excluded");
    check.assume("ripd::checkpoints::WorkspaceCheckpointHook is private to ripd; the harness uses a line-for-line equivalent built from rip_tools::CheckpointHook + rip_workspace::Workspace (create = Workspace::create_checkpoint with the raw paths; rewind = list_checkpoints, require an entry with that id, rewind_to_checkpoint) in group `paths`; group `session` drives the real hook through ripd::SessionEngine input envelopes");
    check.note(format!(
        "excluded by construction (counted in counters.excluded_known_*): F2={} F3_ESCAPE={} F3_CWD={} F20={}",
        excluded(EXCLUDE_KNOWN_F2, "F2"),
        excluded(EXCLUDE_KNOWN_F3_ESCAPE, "F3_ESCAPE"),
        excluded(EXCLUDE_KNOWN_F3_CWD, "F3_CWD"),
        excluded(EXCLUDE_KNOWN_F20, "F20")
    ));
    check.assume("task cwd (ripd/src/tasks/logs.rs resolve_path) is not reachable through a public API; the textually identical resolver behind the bash/shell tool's cwd argument is covered instead");
    check.assume("absolute paths inside the root passed to checkpoint create are neither required to be refused nor to be accepted (ripd's own tests pass them); for every other position any absolute path must be refused");
    check.assume(format!(
        "process cwd is per case: {}",
        if cwd::per_thread_supported() {
            "each shard thread detaches its fs attributes with unshare(CLONE_FS), so chdir is thread-private (inherited by the threads and children it spawns)"
        } else {
            "unshare(CLONE_FS) unavailable: one shard, process-wide chdir per case"
        }
    ));
    let rule = "one path string from the grammar (names, '.', '..', empty, unicode, 255/256-byte, space/backslash/newline segments; leading '/', trailing '/', '//'; absolute sentinel/root/inside-root paths; k x '..' chains; ~4 KiB) x one argument position (read/write/ls/grep path, patch add/delete/update/move-to path, checkpoint create files[], checkpoint rewind id, bash/shell cwd) x process cwd in {root, outer, elsewhere}; non-trivial = path has a '..' segment, or is absolute, or resolves to the root itself, or cwd != root";
    let n = check.cases(20_000, 500_000);
    check.group(
        "paths",
        rule,
        GroupOpts { cases: n, threads: cwd::threads(), ..Default::default() },
        case_strategy,
        run,
    );
    let n = check.cases(3_000, 75_000);
    check.group(
        "session",
        "the same cases sent as one session input envelope ({\"tool\":…} / {\"checkpoint\":…}) through ripd::SessionEngine, i.e. through the real WorkspaceCheckpointHook; cases inside a known-finding region are skipped; same non-triviality rule",
        GroupOpts { cases: n, threads: cwd::threads(), ..Default::default() },
        case_strategy,
        run_session,
    );
    let n = check.cases(250, 6_000);
    check.group(
        "task_cwd",
        "the same path grammar as the `cwd` argument of a BACKGROUND TASK (POST /tasks through the real router, tool bash/shell): the task engine's own resolver (tasks/logs.rs). Same oracles: nothing outside the root changes, no sentinel content in any frame or workspace file, absolute and '..' paths are refused (request rejected, or a `failed` status without any output) and leave no trace. non-trivial as above",
        GroupOpts { cases: n, threads: cwd::threads(), ..Default::default() },
        task_case_strategy,
        run,
    );
    check.finish();
}
