// ---------------------------------------------------------------------------------------------
// group `live` (included into c02.rs): the same byte-level oracle over a LIVE authority — runs,
// plain sessions and background tasks executed through the real router (their writers are the
// session / task emitters, not the continuity store), then every read-only surface of sessions,
// tasks and threads while the handles are still registered in the engine.
//
// The log is compared only at quiescent moments: a step is over when every stream it started
// has logged its terminal frame (run_ended + snapshot, session snapshot, terminal task status).
// A read that appears to write is repeated after the log has settled; only growth that repeats
// is reported (a late frame of a stream that was believed finished is counted, not reported:
// the append-only / whole-frame rule is still applied to it).
// ---------------------------------------------------------------------------------------------

use rv::runs::Authority;

#[derive(Debug, Clone, Serialize, Deserialize)]
enum LStep {
    Post { content: String },
    PostTool { kind: u8, n: u8 },
    PlainSession { content: String },
    PlainTool { kind: u8, n: u8 },
    Task { kind: u8, n: u8 },
    Manual { stride: u8 },
    Auto { stride: u8 },
}

#[derive(Debug, Clone, Serialize, Deserialize)]
enum LRead {
    SessionEvents { s: u16 },
    SecondInput { s: u16 },
    TaskList,
    TaskGet { k: u16 },
    TaskOutput { k: u16, stream: bool, offset: u16, max: u16 },
    TaskEvents { k: u16 },
    ThreadEvents,
    ThreadGet,
    Threads,
    Status { body: Value },
    CutPoints { body: Value },
    CursorStatus,
    SelectionStatus { body: Value },
    AutoDry { stride: Option<u64> },
    ScheduleDry { stride: Option<u64> },
    Doctor,
}

#[derive(Debug, Clone, Serialize, Deserialize)]
struct LiveCase {
    steps: Vec<LStep>,
    reads: Vec<LRead>,
}

fn live_case_strategy() -> BoxedStrategy<LiveCase> {
    let content = || prop_oneof![4 => "[a-z ]{1,20}".boxed(), 1 => rv::gen::text::text_around(8192, 32)];
    let step = prop_oneof![
        3 => content().prop_map(|content| LStep::Post { content }),
        3 => (0u8..4, any::<u8>()).prop_map(|(kind, n)| LStep::PostTool { kind, n }),
        1 => content().prop_map(|content| LStep::PlainSession { content }),
        2 => (0u8..4, any::<u8>()).prop_map(|(kind, n)| LStep::PlainTool { kind, n }),
        4 => (0u8..4, any::<u8>()).prop_map(|(kind, n)| LStep::Task { kind, n }),
        1 => (1u8..3).prop_map(|stride| LStep::Manual { stride }),
        1 => (1u8..3).prop_map(|stride| LStep::Auto { stride }),
    ];
    let read = prop_oneof![
        4 => any::<u16>().prop_map(|s| LRead::SessionEvents { s }),
        2 => any::<u16>().prop_map(|s| LRead::SecondInput { s }),
        1 => Just(LRead::TaskList),
        2 => any::<u16>().prop_map(|k| LRead::TaskGet { k }),
        4 => (any::<u16>(), any::<bool>(), prop_oneof![Just(0u16), 0u16..200], prop_oneof![Just(0u16), 1u16..5000]).prop_map(|(k, stream, offset, max)| LRead::TaskOutput { k, stream, offset, max }),
        4 => any::<u16>().prop_map(|k| LRead::TaskEvents { k }),
        2 => Just(LRead::ThreadEvents),
        1 => Just(LRead::ThreadGet),
        1 => Just(LRead::Threads),
        1 => body_s().prop_map(|body| LRead::Status { body }),
        1 => body_s().prop_map(|body| LRead::CutPoints { body }),
        1 => Just(LRead::CursorStatus),
        1 => body_s().prop_map(|body| LRead::SelectionStatus { body }),
        1 => stride_s().prop_map(|stride| LRead::AutoDry { stride }),
        1 => stride_s().prop_map(|stride| LRead::ScheduleDry { stride }),
        1 => Just(LRead::Doctor),
    ];
    (proptest::collection::vec(step, 1..6), proptest::collection::vec(read, 2..14))
        .prop_map(|(steps, reads)| LiveCase { steps, reads })
        .boxed()
}

fn tool_envelope(kind: u8, n: u8) -> String {
    match kind {
        0 => json!({"tool":"write","args":{"path": format!("w{n}.txt"), "content": format!("c{n}")}}).to_string(),
        1 => json!({"tool":"ls","args":{"path":"."}}).to_string(),
        2 => json!({"tool":"bash","args":{"command": format!("echo out{n}; echo err{n} >&2")}}).to_string(),
        _ => json!({"tool":"read","args":{"path": format!("w{n}.txt")}}).to_string(),
    }
}

fn task_command(kind: u8, n: u8) -> String {
    match kind {
        0 => format!("echo task{n}"),
        1 => format!("printf 'a%.0s' $(seq 1 {}); echo", 200 + n as u32 * 40),
        2 => format!("echo e{n} >&2; exit 3"),
        _ => "true".to_string(),
    }
}

/// the log stopped growing: three equal lengths 5 ms apart (bounded: 2 s)
async fn settle(path: &std::path::Path) -> bool {
    let len = |p: &std::path::Path| std::fs::metadata(p).map(|m| m.len()).unwrap_or(0);
    let t0 = std::time::Instant::now();
    let mut last = len(path);
    let mut same = 0;
    while same < 3 {
        tokio::time::sleep(Duration::from_millis(5)).await;
        let l = len(path);
        if l == last {
            same += 1;
        } else {
            same = 0;
            last = l;
        }
        if t0.elapsed() > Duration::from_secs(2) {
            return false;
        }
    }
    true
}

async fn wait_task_terminal(auth: &Authority, task: &str) -> bool {
    let t0 = std::time::Instant::now();
    loop {
        let done = auth.sandbox.truth_values().unwrap_or_default().iter().any(|v| {
            v["stream_id"] == task
                && v["type"] == "tool_task_status"
                && matches!(v["status"].as_str(), Some("exited") | Some("cancelled") | Some("failed"))
        });
        if done {
            return true;
        }
        if t0.elapsed() > Duration::from_secs(30) {
            return false;
        }
        tokio::time::sleep(Duration::from_millis(4)).await;
    }
}

async fn do_live_read(auth: &Authority, thread: &str, sessions: &[String], tasks: &[String], r: &LRead, rep: &mut CaseReport) -> &'static str {
    let router = &auth.router;
    let sid = |s: u16| if sessions.is_empty() || s % 9 == 0 { "nope".to_string() } else { sessions[pick(s, sessions.len())].clone() };
    let tid = |k: u16| if tasks.is_empty() || k % 9 == 0 { "nope".to_string() } else { tasks[pick(k, tasks.len())].clone() };
    match r {
        LRead::SessionEvents { s } => {
            let path = format!("/sessions/{}/events", sid(*s));
            let (_s, frames, _) = rv::http::sse_collect(router, &path, Duration::from_millis(40), |p| p.last().map(|l| l.contains("\"type\":\"session_ended\"")).unwrap_or(false)).await;
            rep.count("sse_frames_read", frames.len() as u64);
            "live_session_stream_open"
        }
        LRead::SecondInput { s } => {
            // a finished session refuses further input (409): a no-op invocation
            let id = sid(*s);
            let (st, _) = rv::http::call_json(router, Method::POST, &format!("/sessions/{id}/input"), Some(json!({"input": "again"}))).await;
            rep.class(format!("second_input_status:{}", st.as_u16()));
            if st.is_success() {
                // accepted (an unknown id cannot be, a fresh one could): not a no-op, not asserted
                return "live_second_input_accepted";
            }
            "live_second_input_refused"
        }
        LRead::TaskList => {
            rv::http::call(router, Method::GET, "/tasks", None).await;
            "live_task_list"
        }
        LRead::TaskGet { k } => {
            rv::http::call(router, Method::GET, &format!("/tasks/{}", tid(*k)), None).await;
            "live_task_get"
        }
        LRead::TaskOutput { k, stream, offset, max } => {
            let mut path = format!("/tasks/{}/output?stream={}&offset_bytes={offset}", tid(*k), if *stream { "stdout" } else { "stderr" });
            if *max > 0 {
                path.push_str(&format!("&max_bytes={max}"));
            }
            rv::http::call(router, Method::GET, &path, None).await;
            "live_task_output"
        }
        LRead::TaskEvents { k } => {
            let path = format!("/tasks/{}/events", tid(*k));
            let (_s, frames, _) = rv::http::sse_collect(router, &path, Duration::from_millis(40), |p| p.len() >= 200).await;
            rep.count("sse_frames_read", frames.len() as u64);
            "live_task_stream_open"
        }
        LRead::ThreadEvents => {
            let (_s, frames, _) = rv::http::sse_collect(router, &format!("/threads/{thread}/events"), Duration::from_millis(40), |p| p.len() >= 400).await;
            rep.count("sse_frames_read", frames.len() as u64);
            "live_thread_stream_open"
        }
        LRead::ThreadGet => {
            rv::http::call(router, Method::GET, &format!("/threads/{thread}"), None).await;
            "live_thread_get"
        }
        LRead::Threads => {
            rv::http::call(router, Method::GET, "/threads", None).await;
            "live_threads"
        }
        LRead::Status { body } => {
            rv::http::call(router, Method::POST, &format!("/threads/{thread}/compaction-status"), Some(body.clone())).await;
            "live_status"
        }
        LRead::CutPoints { body } => {
            rv::http::call(router, Method::POST, &format!("/threads/{thread}/compaction-cut-points"), Some(body.clone())).await;
            "live_cut_points"
        }
        LRead::CursorStatus => {
            rv::http::call(router, Method::POST, &format!("/threads/{thread}/provider-cursor-status"), Some(json!({}))).await;
            "live_cursor_status"
        }
        LRead::SelectionStatus { body } => {
            rv::http::call(router, Method::POST, &format!("/threads/{thread}/context-selection-status"), Some(body.clone())).await;
            "live_selection_status"
        }
        LRead::AutoDry { stride } => {
            rv::http::call(router, Method::POST, &format!("/threads/{thread}/compaction-auto"),
                Some(json!({"stride_messages": stride, "dry_run": true, "actor_id": "user", "origin": "cli"}))).await;
            "live_auto_dry_run"
        }
        LRead::ScheduleDry { stride } => {
            rv::http::call(router, Method::POST, &format!("/threads/{thread}/compaction-auto-schedule"),
                Some(json!({"stride_messages": stride, "dry_run": true, "actor_id": "user", "origin": "cli"}))).await;
            "live_schedule_dry_run"
        }
        LRead::Doctor => {
            rv::http::call(router, Method::GET, "/config/doctor", None).await;
            "live_doctor"
        }
    }
}

thread_local! {
    static LIVE_RT: tokio::runtime::Runtime = rv::runs::runtime(2);
}

fn run_live(case: &LiveCase) -> CaseReport {
    let mut rep = CaseReport::new();
    LIVE_RT.with(|rt| {
        rt.block_on(async {
            let auth = Authority::new("c02l", None);
            let log_path = auth.sandbox.log_path();
            let Some(thread) = auth.ensure_thread().await else {
                rep.inconclusive("ensure_failed");
                return;
            };
            let mut sessions: Vec<String> = Vec::new();
            let mut tasks: Vec<String> = Vec::new();
            // ---- mutating steps: prefix + whole frames at every quiescent moment
            for (i, step) in case.steps.iter().enumerate() {
                let before = std::fs::read(&log_path).unwrap_or_default();
                let what: &'static str = match step {
                    LStep::Post { .. } | LStep::PostTool { .. } => {
                        let input = match step {
                            LStep::Post { content } => content.clone(),
                            LStep::PostTool { kind, n } => tool_envelope(*kind, *n),
                            _ => unreachable!(),
                        };
                        let (_s, v) = auth.post_message(&thread, &input, None).await;
                        if let Some(sid) = v["session_id"].as_str() {
                            sessions.push(sid.to_string());
                            if !auth.wait_run_ended(sid, Duration::from_secs(30)).await || !auth.wait_snapshot(sid, Duration::from_secs(30)).await {
                                rep.inconclusive("run_not_ended");
                                return;
                            }
                        }
                        "live_run"
                    }
                    LStep::PlainSession { .. } | LStep::PlainTool { .. } => {
                        let input = match step {
                            LStep::PlainSession { content } => content.clone(),
                            LStep::PlainTool { kind, n } => tool_envelope(*kind, *n),
                            _ => unreachable!(),
                        };
                        if let Some(sid) = auth.create_session().await {
                            let _ = auth.send_input(&sid, &input).await;
                            if !auth.wait_snapshot(&sid, Duration::from_secs(30)).await {
                                rep.inconclusive("session_not_ended");
                                return;
                            }
                            sessions.push(sid);
                        }
                        "live_plain_session"
                    }
                    LStep::Task { kind, n } => {
                        let (_s, v) = rv::http::call_json(&auth.router, Method::POST, "/tasks",
                            Some(json!({"tool": "bash", "args": {"command": task_command(*kind, *n)}, "title": "c02"}))).await;
                        if let Some(t) = v["task_id"].as_str() {
                            tasks.push(t.to_string());
                            if !wait_task_terminal(&auth, t).await {
                                rep.inconclusive("task_not_terminal");
                                return;
                            }
                        }
                        "live_task"
                    }
                    LStep::Manual { stride } => {
                        let _ = rv::http::call_json(&auth.router, Method::POST, &format!("/threads/{thread}/compaction-checkpoint"),
                            Some(json!({"summary_markdown": "manual", "stride_messages": stride, "actor_id": "user", "origin": "test"}))).await;
                        "live_manual_checkpoint"
                    }
                    LStep::Auto { stride } => {
                        let (_s, v) = rv::http::call_json(&auth.router, Method::POST, &format!("/threads/{thread}/compaction-auto"),
                            Some(json!({"stride_messages": stride, "max_new_checkpoints": 2, "actor_id": "user", "origin": "test"}))).await;
                        if let Some(job) = v["job_id"].as_str() {
                            let t0 = std::time::Instant::now();
                            loop {
                                if auth.sandbox.truth_values().unwrap_or_default().iter().any(|f| f["type"] == "continuity_job_ended" && f["job_id"] == job) {
                                    break;
                                }
                                if t0.elapsed() > Duration::from_secs(30) {
                                    rep.inconclusive("job_not_ended");
                                    return;
                                }
                                tokio::time::sleep(Duration::from_millis(3)).await;
                            }
                        }
                        "live_auto"
                    }
                };
                if !settle(&log_path).await {
                    rep.inconclusive("log_never_settled");
                    return;
                }
                let after = std::fs::read(&log_path).unwrap_or_default();
                let n = check_delta(&before, &after, Expect::Frames, what, i, &mut rep);
                rep.count("frames_appended_by_steps", n as u64);
                rep.class(what);
            }
            // ---- read-only surfaces over the live handles
            for (i, r) in case.reads.iter().enumerate() {
                if !settle(&log_path).await {
                    rep.inconclusive("log_never_settled");
                    return;
                }
                let before = std::fs::read(&log_path).unwrap_or_default();
                let what = do_live_read(&auth, &thread, &sessions, &tasks, r, &mut rep).await;
                tokio::time::sleep(Duration::from_millis(3)).await;
                let after = std::fs::read(&log_path).unwrap_or_default();
                rep.class(what);
                if what == "live_second_input_accepted" {
                    check_delta(&before, &after, Expect::Frames, what, i, &mut rep);
                    continue;
                }
                if after.len() == before.len() || !after.starts_with(&before) {
                    check_delta(&before, &after, Expect::Nothing, what, i, &mut rep);
                    continue;
                }
                // growth: attribute it. Repeat the same request after the log has settled.
                check_delta(&before, &after, Expect::Frames, what, i, &mut rep);
                let mut repeats = 0;
                for _ in 0..2 {
                    if !settle(&log_path).await {
                        rep.inconclusive("log_never_settled");
                        return;
                    }
                    let b2 = std::fs::read(&log_path).unwrap_or_default();
                    let _ = do_live_read(&auth, &thread, &sessions, &tasks, r, &mut rep).await;
                    tokio::time::sleep(Duration::from_millis(3)).await;
                    let a2 = std::fs::read(&log_path).unwrap_or_default();
                    if a2.len() != b2.len() {
                        repeats += 1;
                    }
                }
                if repeats > 0 {
                    check_delta(&before, &after, Expect::Nothing, what, i, &mut rep);
                } else {
                    rep.count("growth_not_repeatable_unattributed", 1);
                }
            }
            let Authority { sandbox, router } = auth;
            drop(router);
            tokio::time::sleep(Duration::from_millis(5)).await;
            drop(sandbox);
        });
    });
    let live_streams = case.steps.iter().filter(|s| !matches!(s, LStep::Manual { .. } | LStep::Auto { .. })).count();
    rep.nontrivial = live_streams >= 1
        && case.reads.iter().any(|r| matches!(r, LRead::SessionEvents { .. } | LRead::TaskEvents { .. } | LRead::TaskOutput { .. } | LRead::SecondInput { .. }));
    rep
}
