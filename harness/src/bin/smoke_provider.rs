//! Development smoke test for the scripted provider + authority helpers (not a check).
use rv::provider::{sse_done, sse_json, Provider, Reply};
use rv::runs::{provider_config, runtime, Authority};
use serde_json::json;
use std::time::Duration;

fn main() {
    rv::engine::scrub_env();
    let rt = runtime(4);
    rt.block_on(async {
        let mut body = String::new();
        body.push_str(&sse_json(&json!({"type":"response.created","sequence_number":0,"response":{"id":"resp_1"}})));
        body.push_str(&sse_json(&json!({"type":"response.output_text.delta","sequence_number":1,"item_id":"i1","output_index":0,"content_index":0,"delta":"hello "})));
        body.push_str(&sse_json(&json!({"type":"response.output_text.delta","sequence_number":2,"item_id":"i1","output_index":0,"content_index":0,"delta":"world"})));
        body.push_str(&sse_done());
        let chunks = rv::provider::partition(body.as_bytes(), &[1000, 20000, 40000]);
        let provider = Provider::start(vec![Reply::sse(chunks)], Reply::error(500, "{}")).await;
        let auth = Authority::new("smoke", Some(provider_config(provider.endpoint())));
        let thread = auth.ensure_thread().await.expect("thread");
        let (s, v) = auth.post_message(&thread, "hi there", None).await;
        println!("post: {s} {v}");
        let sid = v["session_id"].as_str().unwrap().to_string();
        let (frames, ended) = auth.session_frames(&sid, Duration::from_secs(5)).await;
        println!("frames: {} ended={ended}", frames.len());
        for f in &frames {
            println!("  {} {}", f["seq"], f["type"]);
        }
        println!("run_ended: {}", auth.wait_run_ended(&sid, Duration::from_secs(5)).await);
        for r in provider.recorded() {
            println!("provider got {} {} body={}", r.method, r.path, String::from_utf8_lossy(&r.body).chars().take(300).collect::<String>());
        }
        for v in auth.sandbox.truth_thread(&thread).unwrap() {
            println!("  thread {} {:?}", v.seq, rip_tui_type(&v));
        }
    });
    rv::engine::scratch::cleanup_root();
}

fn rip_tui_type(e: &rip_kernel::Event) -> String {
    serde_json::to_value(e).unwrap()["type"].as_str().unwrap_or("?").to_string()
}
