//! C04 — caches are transparent: losing or corrupting them never changes an answer; every read
//! terminates.
//!
//! Three-way differential per read capability: A = the store as found (faulted caches, possibly
//! after more appends and a restart), B = a byte copy with `continuity_streams/` removed,
//! M = the reference model folded over the truth frames. A == M and B == M are required
//! (compile: A == B; its model lives in C08). Termination is decided by loop fuel (H4), no clock.

use std::collections::BTreeMap;

use proptest::prelude::*;
use rip_kernel::{Event, EventKind};
use ripd::{
    CompactionCutPointsV1Request, CompactionStatusV1Request, ContextSelectionStatusV1Request,
    ContinuityRunLink, ProviderCursorRotateV1Request, ProviderCursorStatusV1Request,
};
use rv::engine::findings::KnownFindings;
use rv::engine::{pick, CaseReport, Check, GroupOpts};
use rv::fault::{self, Applied, Fault, Versions};
use rv::fuel::{guarded, Guarded};
use rv::model;
use rv::surface::{model_surface, params_strategy, surface, surface_appending, Outcome, Params};
use rv::store::{
    check_stream_numbering, ops_strategy, CutSel, Interp, Live, Op, OpWeights, Sandbox, ENDPOINTS, MODELS,
    PROVIDERS,
};
use serde::{Deserialize, Serialize};
use serde_json::{json, Value};

#[derive(Debug, Clone, Serialize, Deserialize)]
struct Case {
    ops1: Vec<Op>,
    faults: Vec<Fault>,
    restart1: bool,
    ops2: Vec<Op>,
    restart2: bool,
    params: Params,
}

fn weights() -> OpWeights {
    OpWeights {
        msg: 14,
        run: 6,
        run_linked: 4,
        cursor: 4,
        side_effects: 4,
        checkpoint: 3,
        auto: 3,
        branch: 1,
        restart: 1,
        ensure: 1,
    }
}

fn case_strategy(single_fault: bool) -> BoxedStrategy<Case> {
    let faults = if single_fault {
        proptest::collection::vec(fault::fault_strategy(), 1..=1).boxed()
    } else {
        proptest::collection::vec(fault::fault_strategy(), 2..=4).boxed()
    };
    (
        ops_strategy(weights(), 36),
        faults,
        any::<bool>(),
        proptest::collection::vec(rv::store::op_strategy(OpWeights { branch: 0, restart: 0, ensure: 0, ..weights() }), 0..7),
        any::<bool>(),
        params_strategy(),
    )
        .prop_map(|(ops1, faults, restart1, ops2, restart2, params)| Case {
            ops1,
            faults,
            restart1,
            ops2,
            restart2,
            params,
        })
        .boxed()
}

/// Cause labels used in signatures: `<family>|<file suffix>|<detail>`, one candidate per effective
/// fault (plus a combined `multi` label).
///
/// family = `stale_image` (rolled back to an earlier version / cut at a record boundary: a
/// well-formed earlier image), `damaged_then_appended` (deleted, torn or garbage, then extended by
/// later appends: valid tail, damaged or missing head) or `detectable` (the damage is at the tail or
/// the file is gone when it is read).
fn causes_of(applied: &[Applied], appended_after: bool, restarted: bool) -> Vec<String> {
    let eff: Vec<&Applied> = applied.iter().filter(|a| a.changed).collect();
    let tail = format!(
        "{}{}",
        if appended_after { "+append" } else { "" },
        if restarted { "+restart" } else { "" }
    );
    if eff.is_empty() {
        return vec![format!("none|-|no_effective_fault{tail}")];
    }
    let mut out: Vec<String> = eff
        .iter()
        .map(|a| {
            // three families: a well-formed EARLIER image of the file (rolled back / cut at a
            // record boundary); a file damaged or deleted and then extended by later appends (valid
            // tail, damaged or missing head); damage that is visible at the tail when read
            let family = if a.stale_prefix || a.kind == "rollback" {
                "stale_image"
            } else if appended_after {
                "damaged_then_appended"
            } else {
                "detectable"
            };
            format!(
                "{}|{}|{}{}{}",
                family,
                a.suffix,
                a.kind,
                if a.stale_prefix { "(record_boundary)" } else { "" },
                tail
            )
        })
        .collect();
    out.sort();
    out.dedup();
    out
}

/// Signature of a divergence: `<kind>|<family>|<file>|<read>|<detail>`. In a multi-fault case a
/// divergence is explained by a listed finding only if one of its effective faults individually
/// falls under a listed (family, file, read) combination; otherwise it is reported under the
/// combined `multi` label.
fn sig_for(kind: &str, read: &str, causes: &[String], known: &KnownFindings) -> String {
    let split = |c: &str| -> (String, String) {
        let mut it = c.splitn(3, '|');
        let fam = it.next().unwrap_or("");
        let file = it.next().unwrap_or("");
        let detail = it.next().unwrap_or("");
        (format!("{fam}|{file}"), detail.to_string())
    };
    if causes.len() == 1 {
        let (ff, detail) = split(&causes[0]);
        return format!("{kind}|{ff}|{read}|{detail}");
    }
    for c in causes {
        let (ff, detail) = split(c);
        let sig = format!("{kind}|{ff}|{read}|{detail}");
        if known.matches(&sig).is_some() {
            return sig;
        }
    }
    let family = if causes.iter().any(|c| c.starts_with("stale_image")) {
        "stale_image"
    } else if causes.iter().any(|c| c.starts_with("damaged_then_appended")) {
        "damaged_then_appended"
    } else {
        "detectable"
    };
    format!("{kind}|{family}|multi|{read}|{}", causes.join(","))
}

/// `<read>:fails` when the store as found answers with an error, `<read>:answers_differently`
/// when it answers with something else than truth determines: a cache that makes a read FAIL and
/// one that makes it LIE are different findings and are listed separately.
fn read_outcome(read: &str, a: &Outcome) -> String {
    format!("{read}:{}", if matches!(a, Outcome::Err) { "fails" } else { "answers_differently" })
}

/// C04_SURVEY=1 (development aid): divergences are tallied as classes instead of failing the case,
/// to list which (family, file, read:outcome) combinations reproduce on a tree.
fn survey() -> bool {
    static S: std::sync::OnceLock<bool> = std::sync::OnceLock::new();
    *S.get_or_init(|| std::env::var_os("C04_SURVEY").is_some())
}

fn survey_key(sig: &str) -> String {
    let head = sig.split('|').take(4).collect::<Vec<_>>().join("|");
    if sig.contains("|multi|") {
        // causes are "family|file|detail" joined by ','
        let causes = sig.splitn(5, '|').nth(4).unwrap_or("");
        let mut ff: Vec<String> = causes.split(',').map(|c| c.split('|').take(2).collect::<Vec<_>>().join("/")).collect();
        ff.sort();
        ff.dedup();
        return format!("{head} <- {}", ff.join(" + "));
    }
    head
}

fn loc_of(p: &str) -> String {
    p.rsplit(" @ ").next().unwrap_or("").to_string()
}

/// Compare the three surfaces at one observation point. Returns false when truth is unusable.
fn observe(it: &Interp, p: &Params, causes: &[String], known: &KnownFindings, point: &str, rep: &mut CaseReport) -> bool {
    let cause = &causes.join(",");
    let sb = &it.sandbox;
    let values = match sb.truth_values() {
        Ok(v) => v,
        Err(e) => {
            rep.fail(sig_for("truth_unreadable", "log", causes, known), json!({"point": point, "error": e}));
            return false;
        }
    };
    if let Err(e) = check_stream_numbering(&values) {
        rep.fail(sig_for("truth_corrupted", "log", causes, known), json!({"point": point, "error": e}));
        return false;
    }
    // B: byte copy without the caches, taken before A's reads can rebuild anything
    let b = sb.fork("b");
    let _ = std::fs::remove_dir_all(b.streams_dir());
    let b_live = b.open();
    for t in &it.threads {
        let tid = t.id.as_str();
        let truth = match sb.truth_thread(tid) {
            Ok(t) => t,
            Err(_) => continue,
        };
        let msgs = model::messages(&truth);
        let anchor = if msgs.is_empty() { None } else { Some(msgs[pick(p.anchor, msgs.len())].1.clone()) };
        let m = model_surface(tid, &truth, p, it);
        let mut a = surface_appending(sb, false, tid, p, it);
        let mut bs = surface_appending(&b, true, tid, p, it);
        // half of the cases evaluate every read on its own fresh copy of the store as found, so
        // that one read (e.g. replay, which rebuilds a missing sidecar) cannot heal the caches for
        // the next one; the other half use the live store sequentially (in-memory state included)
        if p.anchor % 2 == 0 {
            a.extend(rv::surface::surface_isolated(sb, tid, p, anchor.as_deref()));
            rep.class("reads_isolated");
        } else {
            a.extend(surface(&it.live, sb, tid, p, anchor.as_deref()));
        }
        bs.extend(surface(&b_live, &b, tid, p, anchor.as_deref()));
        rep.count("reads_compared", a.len() as u64);
        for (key, av) in &a {
            let read = key.split('#').next().unwrap_or(key);
            let bv = bs.get(key).cloned().unwrap_or(Outcome::Skipped);
            for (side, v) in [("A", av), ("B", &bv)] {
                match v {
                    Outcome::NonTerm(l) => {
                        rep.fail(
                            format!("non_termination|{l}|{read}"),
                            json!({"point": point, "side": side, "thread_frames": truth.len(), "cause": cause}),
                        );
                    }
                    Outcome::Panic(pn) => {
                        rep.fail(
                            format!("panic|{read}|{}", loc_of(pn)),
                            json!({"point": point, "side": side, "panic": pn, "cause": cause}),
                        );
                    }
                    _ => {}
                }
            }
            if matches!(av, Outcome::NonTerm(_) | Outcome::Panic(_)) || matches!(bv, Outcome::NonTerm(_) | Outcome::Panic(_)) {
                continue;
            }
            match m.get(key) {
                Some(mv) => {
                    if &bv != mv {
                        rep.fail(
                            format!("nocache_divergence|{read}"),
                            json!({"point": point, "thread": tid, "key": key, "B": bv.brief(), "M": mv.brief()}),
                        );
                    } else if av != mv {
                        let sig = sig_for("cache_divergence", &read_outcome(read, av), causes, known);
                        if survey() {
                            rep.class(format!("survey:{}", survey_key(&sig)));
                        } else {
                            rep.fail(sig, json!({"point": point, "thread": tid, "key": key, "A": av.brief(), "M": mv.brief()}));
                        }
                    }
                }
                None => {
                    // compile: model-free differential
                    if *av != bv {
                        let sig = sig_for("cache_divergence", &read_outcome(read, av), causes, known);
                        if survey() {
                            rep.class(format!("survey:{}", survey_key(&sig)));
                        } else {
                            rep.fail(sig, json!({"point": point, "thread": tid, "key": key, "A": av.brief(), "B": bv.brief()}));
                        }
                    }
                }
            }
        }
    }
    true
}

fn run(case: &Case, known: &KnownFindings) -> CaseReport {
    let mut rep = CaseReport::new();
    rv::fuel::install();
    let mut it = Interp::new("c04");
    let mut versions = Versions::default();
    for op in &case.ops1 {
        let _ = rv::engine::runner::catch(|| it.apply(op));
        versions.record(&it.sandbox.streams_dir());
    }
    // faults
    let mut applied: Vec<Applied> = Vec::new();
    for f in &case.faults {
        if let Some(a) = fault::apply(&it.sandbox.streams_dir(), f, &versions) {
            if a.changed {
                rep.class(format!("fault:{}", a.kind));
                rep.class(format!("file:{}", a.suffix));
            }
            applied.push(a);
        }
    }
    let effective = applied.iter().filter(|a| a.changed).count();
    if case.restart1 {
        it.restart();
    }
    let cause1 = causes_of(&applied, false, case.restart1);
    if !observe(&it, &case.params, &cause1, known, "after_fault", &mut rep) {
        return rep;
    }
    // more appends on the faulted caches
    let mut appended = 0;
    let before = it.sandbox.log_bytes().len();
    for op in &case.ops2 {
        let _ = rv::engine::runner::catch(|| it.apply(op));
    }
    if it.sandbox.log_bytes().len() > before {
        appended = 1;
    }
    if case.restart2 {
        it.restart();
    }
    if appended > 0 || case.restart2 {
        let cause2 = causes_of(&applied, appended > 0, case.restart1 || case.restart2);
        observe(&it, &case.params, &cause2, known, "after_append", &mut rep);
    }
    rep.nontrivial = effective >= 1 && (appended > 0 || case.restart1 || case.restart2);
    rep.class_if(effective == 0, "no_effective_fault");
    rep.class_if(appended > 0, "appended_after_fault");
    rep.class_if(case.restart1 || case.restart2, "restarted_after_fault");
    rep
}

// ---------------------------------------------------------------------------------------------
// Long threads: beyond every bounded tail window
// ---------------------------------------------------------------------------------------------

#[derive(Debug, Clone, Serialize, Deserialize)]
struct LongCase {
    /// frames (messages) appended after the early "interesting" frames
    bulk_messages: u32,
    /// bytes of content per bulk message
    content_len: u32,
    /// non-message frames inserted after every k-th message (0 = none)
    dense_every: u32,
    early: Vec<Op>,
    /// operations applied AFTER the bulk: the reads then find SOME of the frames they look for inside
    /// their tail window and the rest far in front of it (a window holding at least one but fewer
    /// than `limit` decisions, a cursor newer than the early ones, ...)
    #[serde(default)]
    late: Vec<Op>,
    fault: Option<Fault>,
    restart: bool,
    params: Params,
}

fn long_ops(min: usize, max: usize, linked: u32) -> BoxedStrategy<Vec<Op>> {
    proptest::collection::vec(
        rv::store::op_strategy(OpWeights {
            msg: 4,
            run: 3,
            run_linked: linked,
            cursor: 8,
            side_effects: 1,
            checkpoint: 2,
            auto: 4,
            branch: 0,
            restart: 0,
            ensure: 0,
        }),
        min..max,
    )
    .boxed()
}

fn long_strategy() -> BoxedStrategy<LongCase> {
    let early = long_ops(4, 24, 6);
    let late = prop_oneof![2 => Just(Vec::new()).boxed(), 3 => long_ops(1, 9, 14)];
    (
        prop_oneof![
            2 => (10_010u32..10_400, 4u32..40, prop_oneof![Just(0u32), Just(0), 50u32..400]),   // > 10^4 frames
            3 => (1_050u32..1_200, 7_800u32..8_400, Just(0u32)),                                 // > 8 MiB sidecar
            2 => (1_500u32..2_500, 150u32..300, prop_oneof![Just(0u32), 3u32..10]),              // > 256 KiB sidecar
        ],
        early,
        late,
        proptest::option::weighted(0.5, fault::fault_strategy()),
        any::<bool>(),
        params_strategy(),
    )
        .prop_map(|((bulk_messages, content_len, dense_every), early, late, fault, restart, params)| LongCase {
            bulk_messages,
            content_len,
            dense_every,
            early,
            late,
            fault,
            restart,
            params,
        })
        .boxed()
}

fn run_long(case: &LongCase, known: &KnownFindings) -> CaseReport {
    let mut rep = CaseReport::new();
    rv::fuel::install();
    let mut it = Interp::new("c04l");
    it.apply(&Op::Ensure);
    it.apply(&Op::Msg { t: 0, actor: 0, content: "first".into() });
    it.apply(&Op::RunSpawned { t: 0, m: 0 });
    for op in &case.early {
        let _ = rv::engine::runner::catch(|| it.apply(op));
    }
    let tid = it.thread_id(0);
    let content: String = "lorem ipsum ".repeat(case.content_len as usize / 12 + 1)[..case.content_len as usize].to_string();
    let link = ContinuityRunLink {
        continuity_id: tid.clone(),
        message_id: "m".into(),
        actor_id: "user".into(),
        origin: "cli".into(),
    };
    for i in 0..case.bulk_messages {
        let _ = it.live.store.append_message(&tid, "user".into(), "cli".into(), format!("{i} {content}"));
        if case.dense_every > 0 && i % case.dense_every == 0 {
            for _ in 0..3 {
                let _ = it.live.store.append_tool_side_effects(
                    &link,
                    "run-x",
                    ripd::ToolSideEffects { tool_id: "t".into(), tool_name: "write".into(), affected_paths: None, checkpoint_id: None },
                );
            }
        }
    }
    for op in &case.late {
        let _ = rv::engine::runner::catch(|| it.apply(op));
    }
    rep.class_if(!case.late.is_empty(), "late_frames_inside_the_tail_window");
    // refresh interpreter's view of messages for anchors (resolve_cut reads truth itself)
    let sidecar_len = rv::store::file_len(&it.sandbox.streams_dir().join(format!("{tid}.jsonl")));
    rep.class_if(sidecar_len > 8 * 1024 * 1024, "sidecar>8MiB");
    rep.class_if(sidecar_len > 256 * 1024, "sidecar>256KiB");
    let frames = it.sandbox.truth_thread(&tid).map(|t| t.len()).unwrap_or(0);
    rep.class_if(frames > 10_000, "frames>10^4");
    let mut applied = Vec::new();
    if let Some(f) = &case.fault {
        let versions = Versions::default();
        if let Some(a) = fault::apply(&it.sandbox.streams_dir(), f, &versions) {
            if a.changed {
                rep.class(format!("fault:{}", a.kind));
            }
            applied.push(a);
        }
    }
    if case.restart {
        it.restart();
    }
    let causes = causes_of(&applied, false, case.restart);
    observe(&it, &case.params, &causes, known, "long", &mut rep);
    rep.nontrivial = frames > 10_000 || sidecar_len > 256 * 1024;
    let _ = EventKind::SessionEnded { reason: String::new() };
    rep
}

fn main() {
    let mut check = Check::new("C04", "fault_enumeration");
    check.assume("fault kinds are exactly those the property lists (delete / truncate at any byte / overwrite with garbage / roll back to an earlier version), applied to files under data/continuity_streams/; the thread index (continuities/index.json) is not in the property's list and is not faulted");
    check.assume("compaction status `inflight_job_id` is documented best-effort and is not compared");
    check.assume("cursor rows whose (provider, endpoint, model) keys compare equal under the documented ordering are ordered by seq before comparison");
    check.assume("context compile is compared A==B here (with/without caches); its reference model is C08");
    let rule = "history (generated ops) -> cache fault(s) -> [restart] -> observe -> more appends -> [restart] -> observe; every read capability evaluated on the store as found (A), on a copy without caches (B) and on the model over truth (M). non-trivial = >=1 effective fault and (append or restart after it) before a read; distinct by case hash";
    let n = check.cases(3000, 60_000);
    let known = KnownFindings::load("C04");
    check.group("single_fault", rule, GroupOpts { cases: n, ..Default::default() }, || case_strategy(true), |c| run(c, &known));
    let n = check.cases(1200, 24_000);
    check.group("multi_fault", "same with 2-4 faults on any subset of the cache files", GroupOpts { cases: n, ..Default::default() }, || case_strategy(false), |c| run(c, &known));
    let n = check.cases(40, 400);
    check.group(
        "long",
        "threads longer than every bounded tail window (>10^4 frames, sidecars >256 KiB and >8 MiB, dense non-message frames) with the frames the reads look for placed early and, in 60 % of the cases, a few more of them after the bulk (inside the tail window); optional cache fault and restart; non-trivial = frames>10^4 or sidecar>256KiB",
        GroupOpts { cases: n, watchdog_s: 900, max_shrink_iters: 40, ..Default::default() },
        long_strategy,
        |c| run_long(c, &known),
    );
    check.finish();
}
