//! C04 — caches are transparent: losing or corrupting them never changes an answer; every read
//! terminates.
//!
//! Three-way differential per read capability: A = the store as found (faulted caches, possibly
//! after more appends and a restart), B = a byte copy with `continuity_streams/` removed,
//! M = the reference model folded over the truth frames. A == M and B == M are required
//! (compile: A == B; its model lives in C08). Termination is decided by loop fuel (H4), no clock.

use std::collections::BTreeMap;

use proptest::prelude::*;
use rip_kernel::{Event, EventKind};
use ripd::{
    CompactionCutPointsV1Request, CompactionStatusV1Request, ContextSelectionStatusV1Request,
    ContinuityRunLink, ProviderCursorRotateV1Request, ProviderCursorStatusV1Request,
};
use rv::engine::findings::KnownFindings;
use rv::engine::{pick, CaseReport, Check, GroupOpts};
use rv::fault::{self, Applied, Fault, Versions};
use rv::fuel::{guarded, Guarded};
use rv::model;
use rv::store::{
    check_stream_numbering, ops_strategy, CutSel, Interp, Live, Op, OpWeights, Sandbox, ENDPOINTS, MODELS,
    PROVIDERS,
};
use serde::{Deserialize, Serialize};
use serde_json::{json, Value};

#[derive(Debug, Clone, Serialize, Deserialize)]
struct Params {
    strides: Vec<Option<u64>>,
    limits: Vec<Option<u32>>,
    sel_limit: Option<u32>,
    anchor: u16,
    rot: (Option<u8>, Option<u8>, Option<u8>),
    cut: CutSel,
}

#[derive(Debug, Clone, Serialize, Deserialize)]
struct Case {
    ops1: Vec<Op>,
    faults: Vec<Fault>,
    restart1: bool,
    ops2: Vec<Op>,
    restart2: bool,
    params: Params,
}

fn params_strategy() -> BoxedStrategy<Params> {
    let stride = prop_oneof![
        4 => (1u64..5).prop_map(Some),
        1 => Just(Some(7u64)),
        1 => Just(Some(16u64)),
        1 => Just(Some(10_000u64)),
        1 => Just(None),
    ];
    let limit = prop_oneof![Just(None), Just(Some(1u32)), Just(Some(2)), Just(Some(32)), Just(Some(33))];
    (
        proptest::collection::vec(stride, 2),
        proptest::collection::vec(limit, 2),
        prop_oneof![Just(None), Just(Some(1u32)), Just(Some(2)), Just(Some(10)), Just(Some(50)), Just(Some(51))], // limit 0 is not specified by ADR-0016: not generated
        any::<u16>(),
        (proptest::option::of(0u8..3), proptest::option::of(0u8..3), proptest::option::of(0u8..3)),
        rv::store::cut_sel_strategy(),
    )
        .prop_map(|(strides, limits, sel_limit, anchor, rot, cut)| Params {
            strides,
            limits,
            sel_limit,
            anchor,
            rot,
            cut,
        })
        .boxed()
}

fn weights() -> OpWeights {
    OpWeights {
        msg: 14,
        run: 6,
        run_linked: 4,
        cursor: 4,
        side_effects: 4,
        checkpoint: 3,
        auto: 3,
        branch: 1,
        restart: 1,
        ensure: 1,
    }
}

fn case_strategy(single_fault: bool) -> BoxedStrategy<Case> {
    let faults = if single_fault {
        proptest::collection::vec(fault::fault_strategy(), 1..=1).boxed()
    } else {
        proptest::collection::vec(fault::fault_strategy(), 2..=4).boxed()
    };
    (
        ops_strategy(weights(), 36),
        faults,
        any::<bool>(),
        proptest::collection::vec(rv::store::op_strategy(OpWeights { branch: 0, restart: 0, ensure: 0, ..weights() }), 0..7),
        any::<bool>(),
        params_strategy(),
    )
        .prop_map(|(ops1, faults, restart1, ops2, restart2, params)| Case {
            ops1,
            faults,
            restart1,
            ops2,
            restart2,
            params,
        })
        .boxed()
}

#[derive(Debug, Clone, PartialEq)]
enum Outcome {
    Ok(Value),
    Err,
    NonTerm(String),
    Panic(String),
    Skipped,
}

impl Outcome {
    fn brief(&self) -> Value {
        match self {
            Outcome::Ok(v) => {
                let s = v.to_string();
                if s.len() > 1500 {
                    json!({"ok_prefix": s.chars().take(1500).collect::<String>()})
                } else {
                    json!({ "ok": v })
                }
            }
            Outcome::Err => json!("Err"),
            Outcome::NonTerm(l) => json!({ "non_termination": l }),
            Outcome::Panic(p) => json!({ "panic": p }),
            Outcome::Skipped => json!("skipped"),
        }
    }
}

fn from_guarded<T, E>(g: Guarded<Result<T, E>>, f: impl FnOnce(T) -> Value) -> Outcome {
    match g {
        Guarded::Done(Ok(v)) => Outcome::Ok(f(v)),
        Guarded::Done(Err(_)) => Outcome::Err,
        Guarded::NonTermination(l) => Outcome::NonTerm(l),
        Guarded::Panicked(p) => Outcome::Panic(p),
    }
}

fn to_v<T: Serialize>(t: T) -> Value {
    serde_json::to_value(t).unwrap_or(Value::Null)
}

fn strip_inflight(mut v: Value) -> Value {
    if let Some(o) = v.as_object_mut() {
        o.remove("inflight_job_id");
    }
    v
}

/// The non-appending part of the read surface, evaluated on an open store.
fn surface(live: &Live, sb: &Sandbox, tid: &str, p: &Params, anchor: Option<&str>) -> BTreeMap<String, Outcome> {
    let mut out = BTreeMap::new();
    let s = &live.store;
    out.insert(
        "replay".to_string(),
        from_guarded(guarded(|| s.replay_events(tid)), |ev| Value::Array(model::wire(&ev))),
    );
    for (i, (stride, limit)) in p.strides.iter().zip(p.limits.iter()).enumerate() {
        out.insert(
            format!("cut_points#{i}"),
            from_guarded(
                guarded(|| {
                    s.compaction_cut_points_v1(tid, CompactionCutPointsV1Request { stride_messages: *stride, limit: *limit })
                }),
                to_v,
            ),
        );
        out.insert(
            format!("status#{i}"),
            from_guarded(
                guarded(|| s.compaction_status_v1(tid, CompactionStatusV1Request { stride_messages: *stride })),
                |r| strip_inflight(to_v(r)),
            ),
        );
    }
    out.insert(
        "cursor_status".to_string(),
        from_guarded(guarded(|| s.provider_cursor_status_v1(tid, ProviderCursorStatusV1Request {})), |r| {
            let mut v = to_v(r);
            model::canonicalize_cursor_status(&mut v);
            v
        }),
    );
    out.insert(
        "selection_status".to_string(),
        from_guarded(
            guarded(|| s.context_selection_status_v1(tid, ContextSelectionStatusV1Request { limit: p.sel_limit })),
            to_v,
        ),
    );
    match anchor {
        Some(mid) => {
            let link = ContinuityRunLink {
                continuity_id: tid.to_string(),
                message_id: mid.to_string(),
                actor_id: "user".to_string(),
                origin: "cli".to_string(),
            };
            let snap = sb.data.join("snapshots");
            out.insert(
                "compile".to_string(),
                from_guarded(
                    guarded(|| ripd::verif::compile_context_for_run(s, &live.log, &snap, &link, "11111111-1111-4111-8111-111111111111")),
                    |v| {
                        // attach the bundle the artifact id names, so that ids and content are both compared
                        let id = v["bundle_artifact_id"].as_str().unwrap_or("").to_string();
                        let bundle: Value = std::fs::read(sb.blob_path(&id))
                            .ok()
                            .and_then(|b| serde_json::from_slice(&b).ok())
                            .unwrap_or(Value::Null);
                        // the artifact id itself is not a function of content (fresh per write): drop it
                        let mut v = v;
                        if let Some(o) = v.as_object_mut() {
                            o.remove("bundle_artifact_id");
                        }
                        json!({"result": v, "bundle": bundle})
                    },
                ),
            );
        }
        None => {
            out.insert("compile".to_string(), Outcome::Skipped);
        }
    }
    out
}

/// The appending reads (rotation target, branch cut resolution), evaluated on throw-away forks.
fn surface_appending(sb: &Sandbox, drop_caches: bool, tid: &str, p: &Params, it: &Interp) -> BTreeMap<String, Outcome> {
    let mut out = BTreeMap::new();
    {
        let f = sb.fork("rot");
        if drop_caches {
            let _ = std::fs::remove_dir_all(f.streams_dir());
        }
        let live = f.open();
        let req = ProviderCursorRotateV1Request {
            provider: p.rot.0.map(|x| PROVIDERS[x as usize % 3].to_string()),
            endpoint: p.rot.1.map(|x| ENDPOINTS[x as usize % 3].to_string()),
            model: p.rot.2.map(|x| MODELS[x as usize % 3].to_string()),
            reason: None,
            actor_id: "user".to_string(),
            origin: "cli".to_string(),
        };
        out.insert(
            "rotate_target".to_string(),
            from_guarded(guarded(|| live.store.provider_cursor_rotate_v1(tid, req)), |r| {
                json!({"rotated": r.rotated, "provider": r.provider, "endpoint": r.endpoint, "model": r.model})
            }),
        );
    }
    {
        let f = sb.fork("br");
        if drop_caches {
            let _ = std::fs::remove_dir_all(f.streams_dir());
        }
        let live = f.open();
        let (mid, seq) = it.resolve_cut(tid, &p.cut);
        out.insert(
            "branch_cut".to_string(),
            from_guarded(
                guarded(|| live.store.branch(tid, None, mid.clone(), seq, "user".to_string(), "cli".to_string())),
                |(_, cut_seq, cut_mid)| json!({"cut_seq": cut_seq, "cut_message_id": cut_mid}),
            ),
        );
    }
    out
}

fn model_surface(tid: &str, truth: &[Event], p: &Params, it: &Interp) -> BTreeMap<String, Outcome> {
    let mut out = BTreeMap::new();
    let r = |x: Result<Value, String>| match x {
        Ok(v) => Outcome::Ok(v),
        Err(_) => Outcome::Err,
    };
    out.insert("replay".to_string(), Outcome::Ok(Value::Array(model::wire(truth))));
    for (i, (stride, limit)) in p.strides.iter().zip(p.limits.iter()).enumerate() {
        out.insert(format!("cut_points#{i}"), r(model::cut_points(tid, truth, *stride, *limit)));
        out.insert(format!("status#{i}"), r(model::status(tid, truth, *stride)));
    }
    out.insert("cursor_status".to_string(), Outcome::Ok(model::cursor_status(tid, truth)));
    out.insert(
        "selection_status".to_string(),
        Outcome::Ok(model::selection_status(tid, truth, p.sel_limit)),
    );
    out.insert(
        "rotate_target".to_string(),
        Outcome::Ok(model::rotate_target(
            truth,
            p.rot.0.map(|x| PROVIDERS[x as usize % 3]),
            p.rot.1.map(|x| ENDPOINTS[x as usize % 3]),
            p.rot.2.map(|x| MODELS[x as usize % 3]),
        )),
    );
    let (mid, seq) = it.resolve_cut(tid, &p.cut);
    out.insert(
        "branch_cut".to_string(),
        match model::resolve_lineage_cut(truth, mid.as_deref(), seq) {
            Ok((s, m)) => Outcome::Ok(json!({"cut_seq": s, "cut_message_id": m})),
            Err(_) => Outcome::Err,
        },
    );
    out
}

/// Cause labels used in signatures: `<family>|<file suffix>|<detail>`, one candidate per effective
/// fault (plus a combined `multi` label).
///
/// family = `undetectable_at_tail` when the faulted file ends up as a well-formed but incomplete
/// image of truth whose *tail* is valid: rolled back to an earlier version, cut at a record
/// boundary, or damaged/deleted and then extended by later appends. `detectable` otherwise (the
/// damage is at the tail or the file is gone when it is read).
fn causes_of(applied: &[Applied], appended_after: bool, restarted: bool) -> Vec<String> {
    let eff: Vec<&Applied> = applied.iter().filter(|a| a.changed).collect();
    let tail = format!(
        "{}{}",
        if appended_after { "+append" } else { "" },
        if restarted { "+restart" } else { "" }
    );
    if eff.is_empty() {
        return vec![format!("none|-|no_effective_fault{tail}")];
    }
    let mut out: Vec<String> = eff
        .iter()
        .map(|a| {
            let undetectable = appended_after || a.stale_prefix || a.kind == "rollback";
            format!(
                "{}|{}|{}{}{}",
                if undetectable { "undetectable_at_tail" } else { "detectable" },
                a.suffix,
                a.kind,
                if a.stale_prefix { "(record_boundary)" } else { "" },
                tail
            )
        })
        .collect();
    out.sort();
    out.dedup();
    out
}

/// The label a divergence is reported under: in a multi-fault case a divergence is explained by
/// a listed finding if ANY of its effective faults individually falls under a listed
/// (family, file) combination; otherwise it is reported under the combined label.
fn pick_cause(kind: &str, causes: &[String], known: &KnownFindings) -> String {
    if causes.len() == 1 {
        return causes[0].clone();
    }
    for c in causes {
        if known.matches(&format!("{kind}|{c}|")).is_some() {
            return c.clone();
        }
    }
    let family = if causes.iter().any(|c| c.starts_with("undetectable")) { "undetectable_at_tail" } else { "detectable" };
    format!("{family}|multi|{}", causes.join(","))
}

fn loc_of(p: &str) -> String {
    p.rsplit(" @ ").next().unwrap_or("").to_string()
}

/// Compare the three surfaces at one observation point. Returns false when truth is unusable.
fn observe(it: &Interp, p: &Params, causes: &[String], known: &KnownFindings, point: &str, rep: &mut CaseReport) -> bool {
    let cause = &pick_cause("cache_divergence", causes, known);
    let cause_truth = &pick_cause("truth_corrupted", causes, known);
    let sb = &it.sandbox;
    let values = match sb.truth_values() {
        Ok(v) => v,
        Err(e) => {
            rep.fail(format!("truth_unreadable|{cause_truth}"), json!({"point": point, "error": e}));
            return false;
        }
    };
    if let Err(e) = check_stream_numbering(&values) {
        rep.fail(format!("truth_corrupted|{cause_truth}"), json!({"point": point, "error": e}));
        return false;
    }
    // B: byte copy without the caches, taken before A's reads can rebuild anything
    let b = sb.fork("b");
    let _ = std::fs::remove_dir_all(b.streams_dir());
    let b_live = b.open();
    for t in &it.threads {
        let tid = t.id.as_str();
        let truth = match sb.truth_thread(tid) {
            Ok(t) => t,
            Err(_) => continue,
        };
        let msgs = model::messages(&truth);
        let anchor = if msgs.is_empty() { None } else { Some(msgs[pick(p.anchor, msgs.len())].1.clone()) };
        let m = model_surface(tid, &truth, p, it);
        let mut a = surface_appending(sb, false, tid, p, it);
        let mut bs = surface_appending(&b, true, tid, p, it);
        a.extend(surface(&it.live, sb, tid, p, anchor.as_deref()));
        bs.extend(surface(&b_live, &b, tid, p, anchor.as_deref()));
        rep.count("reads_compared", a.len() as u64);
        for (key, av) in &a {
            let read = key.split('#').next().unwrap_or(key);
            let bv = bs.get(key).cloned().unwrap_or(Outcome::Skipped);
            for (side, v) in [("A", av), ("B", &bv)] {
                match v {
                    Outcome::NonTerm(l) => {
                        rep.fail(
                            format!("non_termination|{l}|{read}"),
                            json!({"point": point, "side": side, "thread_frames": truth.len(), "cause": cause}),
                        );
                    }
                    Outcome::Panic(pn) => {
                        rep.fail(
                            format!("panic|{read}|{}", loc_of(pn)),
                            json!({"point": point, "side": side, "panic": pn, "cause": cause}),
                        );
                    }
                    _ => {}
                }
            }
            if matches!(av, Outcome::NonTerm(_) | Outcome::Panic(_)) || matches!(bv, Outcome::NonTerm(_) | Outcome::Panic(_)) {
                continue;
            }
            match m.get(key) {
                Some(mv) => {
                    if &bv != mv {
                        rep.fail(
                            format!("nocache_divergence|{read}"),
                            json!({"point": point, "thread": tid, "key": key, "B": bv.brief(), "M": mv.brief()}),
                        );
                    } else if av != mv {
                        rep.fail(
                            format!("cache_divergence|{cause}|{read}"),
                            json!({"point": point, "thread": tid, "key": key, "A": av.brief(), "M": mv.brief()}),
                        );
                    }
                }
                None => {
                    // compile: model-free differential
                    if *av != bv {
                        rep.fail(
                            format!("cache_divergence|{cause}|{read}"),
                            json!({"point": point, "thread": tid, "key": key, "A": av.brief(), "B": bv.brief()}),
                        );
                    }
                }
            }
        }
    }
    true
}

fn run(case: &Case, known: &KnownFindings) -> CaseReport {
    let mut rep = CaseReport::new();
    rv::fuel::install();
    let mut it = Interp::new("c04");
    let mut versions = Versions::default();
    for op in &case.ops1 {
        let _ = rv::engine::runner::catch(|| it.apply(op));
        versions.record(&it.sandbox.streams_dir());
    }
    // faults
    let mut applied: Vec<Applied> = Vec::new();
    for f in &case.faults {
        if let Some(a) = fault::apply(&it.sandbox.streams_dir(), f, &versions) {
            if a.changed {
                rep.class(format!("fault:{}", a.kind));
                rep.class(format!("file:{}", a.suffix));
            }
            applied.push(a);
        }
    }
    let effective = applied.iter().filter(|a| a.changed).count();
    if case.restart1 {
        it.restart();
    }
    let cause1 = causes_of(&applied, false, case.restart1);
    if !observe(&it, &case.params, &cause1, known, "after_fault", &mut rep) {
        return rep;
    }
    // more appends on the faulted caches
    let mut appended = 0;
    let before = it.sandbox.log_bytes().len();
    for op in &case.ops2 {
        let _ = rv::engine::runner::catch(|| it.apply(op));
    }
    if it.sandbox.log_bytes().len() > before {
        appended = 1;
    }
    if case.restart2 {
        it.restart();
    }
    if appended > 0 || case.restart2 {
        let cause2 = causes_of(&applied, appended > 0, case.restart1 || case.restart2);
        observe(&it, &case.params, &cause2, known, "after_append", &mut rep);
    }
    rep.nontrivial = effective >= 1 && (appended > 0 || case.restart1 || case.restart2);
    rep.class_if(effective == 0, "no_effective_fault");
    rep.class_if(appended > 0, "appended_after_fault");
    rep.class_if(case.restart1 || case.restart2, "restarted_after_fault");
    rep
}

// ---------------------------------------------------------------------------------------------
// Long threads: beyond every bounded tail window
// ---------------------------------------------------------------------------------------------

#[derive(Debug, Clone, Serialize, Deserialize)]
struct LongCase {
    /// frames (messages) appended after the early "interesting" frames
    bulk_messages: u32,
    /// bytes of content per bulk message
    content_len: u32,
    /// non-message frames inserted after every k-th message (0 = none)
    dense_every: u32,
    early: Vec<Op>,
    fault: Option<Fault>,
    restart: bool,
    params: Params,
}

fn long_strategy() -> BoxedStrategy<LongCase> {
    let early = proptest::collection::vec(
        rv::store::op_strategy(OpWeights {
            msg: 4,
            run: 3,
            run_linked: 6,
            cursor: 8,
            side_effects: 1,
            checkpoint: 2,
            auto: 4,
            branch: 0,
            restart: 0,
            ensure: 0,
        }),
        4..24,
    );
    (
        prop_oneof![
            3 => (10_010u32..10_400, 4u32..40, prop_oneof![Just(0u32), Just(0), 50u32..400]),   // > 10^4 frames
            1 => (1_050u32..1_200, 7_800u32..8_400, Just(0u32)),                                 // > 8 MiB sidecar
            2 => (1_500u32..2_500, 150u32..300, prop_oneof![Just(0u32), 3u32..10]),              // > 256 KiB sidecar
        ],
        early,
        proptest::option::weighted(0.5, fault::fault_strategy()),
        any::<bool>(),
        params_strategy(),
    )
        .prop_map(|((bulk_messages, content_len, dense_every), early, fault, restart, params)| LongCase {
            bulk_messages,
            content_len,
            dense_every,
            early,
            fault,
            restart,
            params,
        })
        .boxed()
}

fn run_long(case: &LongCase, known: &KnownFindings) -> CaseReport {
    let mut rep = CaseReport::new();
    rv::fuel::install();
    let mut it = Interp::new("c04l");
    it.apply(&Op::Ensure);
    it.apply(&Op::Msg { t: 0, actor: 0, content: "first".into() });
    it.apply(&Op::RunSpawned { t: 0, m: 0 });
    for op in &case.early {
        let _ = rv::engine::runner::catch(|| it.apply(op));
    }
    let tid = it.thread_id(0);
    let content: String = "lorem ipsum ".repeat(case.content_len as usize / 12 + 1)[..case.content_len as usize].to_string();
    let link = ContinuityRunLink {
        continuity_id: tid.clone(),
        message_id: "m".into(),
        actor_id: "user".into(),
        origin: "cli".into(),
    };
    for i in 0..case.bulk_messages {
        let _ = it.live.store.append_message(&tid, "user".into(), "cli".into(), format!("{i} {content}"));
        if case.dense_every > 0 && i % case.dense_every == 0 {
            for _ in 0..3 {
                let _ = it.live.store.append_tool_side_effects(
                    &link,
                    "run-x",
                    ripd::ToolSideEffects { tool_id: "t".into(), tool_name: "write".into(), affected_paths: None, checkpoint_id: None },
                );
            }
        }
    }
    // refresh interpreter's view of messages for anchors (resolve_cut reads truth itself)
    let sidecar_len = rv::store::file_len(&it.sandbox.streams_dir().join(format!("{tid}.jsonl")));
    rep.class_if(sidecar_len > 8 * 1024 * 1024, "sidecar>8MiB");
    rep.class_if(sidecar_len > 256 * 1024, "sidecar>256KiB");
    let frames = it.sandbox.truth_thread(&tid).map(|t| t.len()).unwrap_or(0);
    rep.class_if(frames > 10_000, "frames>10^4");
    let mut applied = Vec::new();
    if let Some(f) = &case.fault {
        let versions = Versions::default();
        if let Some(a) = fault::apply(&it.sandbox.streams_dir(), f, &versions) {
            if a.changed {
                rep.class(format!("fault:{}", a.kind));
            }
            applied.push(a);
        }
    }
    if case.restart {
        it.restart();
    }
    let causes = causes_of(&applied, false, case.restart);
    observe(&it, &case.params, &causes, known, "long", &mut rep);
    rep.nontrivial = frames > 10_000 || sidecar_len > 256 * 1024;
    let _ = EventKind::SessionEnded { reason: String::new() };
    rep
}

fn main() {
    let mut check = Check::new("C04", "fault_enumeration");
    check.assume("fault kinds are exactly those the property lists (delete / truncate at any byte / overwrite with garbage / roll back to an earlier version), applied to files under data/continuity_streams/; the thread index (continuities/index.json) is not in the property's list and is not faulted");
    check.assume("compaction status `inflight_job_id` is documented best-effort and is not compared");
    check.assume("cursor rows whose (provider, endpoint, model) keys compare equal under the documented ordering are ordered by seq before comparison");
    check.assume("context compile is compared A==B here (with/without caches); its reference model is C08");
    let rule = "history (generated ops) -> cache fault(s) -> [restart] -> observe -> more appends -> [restart] -> observe; every read capability evaluated on the store as found (A), on a copy without caches (B) and on the model over truth (M). non-trivial = >=1 effective fault and (append or restart after it) before a read; distinct by case hash";
    let n = check.cases(3000, 60_000);
    let known = KnownFindings::load("C04");
    check.group("single_fault", rule, GroupOpts { cases: n, ..Default::default() }, || case_strategy(true), |c| run(c, &known));
    let n = check.cases(1200, 24_000);
    check.group("multi_fault", "same with 2-4 faults on any subset of the cache files", GroupOpts { cases: n, ..Default::default() }, || case_strategy(false), |c| run(c, &known));
    let n = check.cases(20, 300);
    check.group(
        "long",
        "threads longer than every bounded tail window (>10^4 frames, sidecars >256 KiB and >8 MiB, dense non-message frames) with the frames the reads look for placed early; optional cache fault and restart; non-trivial = frames>10^4 or sidecar>256KiB",
        GroupOpts { cases: n, watchdog_s: 900, max_shrink_iters: 40, ..Default::default() },
        long_strategy,
        |c| run_long(c, &known),
    );
    check.finish();
}
