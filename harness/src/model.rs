//! M-truth: reference answers for the continuity read capabilities, computed from the truth frames
//! of one thread only (docs/03_contracts/compaction.md, ADR-0009/0011/0013, and the property
//! statements). Every function is a pure fold over `&[Event]` in stream order.

use rip_kernel::{Event, EventKind};
use serde_json::{json, Value};

pub const SUMMARIZER_JOB_KIND: &str = "compaction_summarizer_v1";

pub fn messages(truth: &[Event]) -> Vec<(u64, String)> {
    truth
        .iter()
        .filter(|e| matches!(e.kind, EventKind::ContinuityMessageAppended { .. }))
        .map(|e| (e.seq, e.id.clone()))
        .collect()
}

/// (to_seq, frame seq, checkpoint_id, summary_kind, summary_artifact_id, cut_rule_id, to_message_id)
pub struct Ckpt {
    pub to_seq: u64,
    pub frame_seq: u64,
    pub checkpoint_id: String,
    pub summary_kind: String,
    pub summary_artifact_id: String,
    pub cut_rule_id: String,
    pub to_message_id: Option<String>,
}

pub fn checkpoints(truth: &[Event]) -> Vec<Ckpt> {
    truth
        .iter()
        .filter_map(|e| match &e.kind {
            EventKind::ContinuityCompactionCheckpointCreated {
                checkpoint_id,
                cut_rule_id,
                summary_kind,
                summary_artifact_id,
                to_seq,
                to_message_id,
                ..
            } => Some(Ckpt {
                to_seq: *to_seq,
                frame_seq: e.seq,
                checkpoint_id: checkpoint_id.clone(),
                summary_kind: summary_kind.clone(),
                summary_artifact_id: summary_artifact_id.clone(),
                cut_rule_id: cut_rule_id.clone(),
                to_message_id: to_message_id.clone(),
            }),
            _ => None,
        })
        .collect()
}

/// Latest checkpoint with to_seq <= bound: greatest to_seq, ties → later frame.
pub fn latest_checkpoint_at_or_before(cks: &[Ckpt], bound: u64) -> Option<&Ckpt> {
    let mut best: Option<&Ckpt> = None;
    for c in cks {
        if c.to_seq > bound {
            continue;
        }
        best = match best {
            None => Some(c),
            Some(b) if c.to_seq > b.to_seq || (c.to_seq == b.to_seq && c.frame_seq > b.frame_seq) => Some(c),
            keep => keep,
        };
    }
    best
}

/// compaction.cut_points: Err(kind) or the response value.
pub fn cut_points(thread: &str, truth: &[Event], stride: Option<u64>, limit: Option<u32>) -> Result<Value, String> {
    let stride = stride.unwrap_or(10_000);
    if stride == 0 {
        return Err("invalid_stride".into());
    }
    if truth.is_empty() {
        return Err("thread_not_found".into());
    }
    let limit = limit.unwrap_or(1).clamp(1, 32) as u64;
    let msgs = messages(truth);
    let cks = checkpoints(truth);
    let count = msgs.len() as u64;
    let latest_multiple = (count / stride) * stride;
    let mut cut_points = Vec::new();
    for i in 0..limit {
        let ordinal = latest_multiple.saturating_sub(i.saturating_mul(stride));
        if ordinal == 0 {
            break;
        }
        let (to_seq, to_message_id) = msgs[(ordinal - 1) as usize].clone();
        let best = latest_checkpoint_at_or_before(&cks, to_seq);
        let already = best.map(|b| b.to_seq == to_seq).unwrap_or(false);
        cut_points.push(json!({
            "target_message_ordinal": ordinal,
            "to_seq": to_seq,
            "to_message_id": to_message_id,
            "already_checkpointed": already,
            "latest_checkpoint_id": if already { best.map(|b| Value::String(b.checkpoint_id.clone())).unwrap_or(Value::Null) } else { Value::Null },
        }));
    }
    Ok(json!({
        "thread_id": thread,
        "stride_messages": stride,
        "message_count": count,
        "cut_rule_id": format!("stride_messages_v1/{stride}"),
        "cut_points": cut_points,
    }))
}

fn planned_json(planned: &[rip_kernel::CompactionPlannedCutPoint]) -> Value {
    Value::Array(
        planned
            .iter()
            .map(|p| json!({"target_message_ordinal": p.target_message_ordinal, "to_seq": p.to_seq, "to_message_id": p.to_message_id}))
            .collect(),
    )
}

fn created_from_result(result: &Option<Value>) -> Value {
    let mut out = Vec::new();
    if let Some(items) = result.as_ref().and_then(|v| v.get("created")).and_then(|v| v.as_array()) {
        for item in items {
            let (Some(a), Some(b), Some(c), Some(d), Some(e)) = (
                item.get("checkpoint_id").and_then(|v| v.as_str()),
                item.get("summary_artifact_id").and_then(|v| v.as_str()),
                item.get("to_seq").and_then(|v| v.as_u64()),
                item.get("to_message_id").and_then(|v| v.as_str()),
                item.get("cut_rule_id").and_then(|v| v.as_str()),
            ) else {
                continue;
            };
            out.push(json!({"checkpoint_id": a, "summary_artifact_id": b, "to_seq": c, "to_message_id": d, "cut_rule_id": e}));
        }
    }
    Value::Array(out)
}

/// compaction.status without `inflight_job_id` (documented best-effort).
pub fn status(thread: &str, truth: &[Event], stride: Option<u64>) -> Result<Value, String> {
    let stride_v = stride.unwrap_or(10_000);
    let cps = cut_points(thread, truth, Some(stride_v), Some(32))?;
    let next = cps["cut_points"]
        .as_array()
        .unwrap()
        .iter()
        .find(|c| c["already_checkpointed"] == false)
        .map(|c| json!({"target_message_ordinal": c["target_message_ordinal"], "to_seq": c["to_seq"], "to_message_id": c["to_message_id"]}))
        .unwrap_or(Value::Null);
    let cks = checkpoints(truth);
    let latest = latest_checkpoint_at_or_before(&cks, u64::MAX)
        .map(|c| {
            json!({"checkpoint_id": c.checkpoint_id, "cut_rule_id": c.cut_rule_id, "summary_kind": c.summary_kind,
                   "summary_artifact_id": c.summary_artifact_id, "to_seq": c.to_seq, "to_message_id": c.to_message_id})
        })
        .unwrap_or(Value::Null);
    let mut decision = Value::Null;
    let mut outcome = Value::Null;
    for e in truth.iter().rev() {
        match &e.kind {
            EventKind::ContinuityCompactionAutoScheduleDecided {
                decision_id, policy_id, decision: d, execute, stride_messages, max_new_checkpoints,
                block_on_inflight, message_count, cut_rule_id, planned, job_id, job_kind, actor_id, origin, ..
            } if decision.is_null() => {
                decision = json!({
                    "decision_id": decision_id, "policy_id": policy_id, "decision": d, "execute": execute,
                    "stride_messages": stride_messages, "max_new_checkpoints": max_new_checkpoints,
                    "block_on_inflight": block_on_inflight, "message_count": message_count,
                    "cut_rule_id": cut_rule_id, "planned": planned_json(planned), "job_id": job_id,
                    "job_kind": job_kind, "actor_id": actor_id, "origin": origin, "seq": e.seq,
                    "timestamp_ms": e.timestamp_ms,
                });
            }
            EventKind::ContinuityJobEnded { job_id, job_kind, status, result, error, actor_id, origin }
                if outcome.is_null() && job_kind == SUMMARIZER_JOB_KIND =>
            {
                outcome = json!({
                    "job_id": job_id, "job_kind": job_kind, "status": status, "error": error,
                    "created": created_from_result(result), "actor_id": actor_id, "origin": origin,
                    "seq": e.seq, "timestamp_ms": e.timestamp_ms,
                });
            }
            _ => {}
        }
    }
    Ok(json!({
        "thread_id": thread,
        "stride_messages": stride_v,
        "message_count": cps["message_count"],
        "latest_checkpoint": latest,
        "next_cut_point": next,
        "last_schedule_decision": decision,
        "last_job_outcome": outcome,
    }))
}

fn cursor_row(e: &Event) -> Option<Value> {
    match &e.kind {
        EventKind::ContinuityProviderCursorUpdated {
            provider, endpoint, model, cursor, action, reason, run_session_id, actor_id, origin,
        } => Some(json!({
            "cursor_event_id": e.id, "provider": provider, "endpoint": endpoint, "model": model,
            "cursor": cursor, "action": action, "reason": reason, "run_session_id": run_session_id,
            "actor_id": actor_id, "origin": origin, "seq": e.seq, "timestamp_ms": e.timestamp_ms,
        })),
        _ => None,
    }
}

fn cursor_sort_key(v: &Value) -> (String, String, String, u64) {
    (
        v["provider"].as_str().unwrap_or("").to_string(),
        v["endpoint"].as_str().unwrap_or("").to_string(),
        v["model"].as_str().unwrap_or("").to_string(),
        v["seq"].as_u64().unwrap_or(0),
    )
}

/// Order rows the way the contract states (provider, endpoint, model); rows whose keys compare
/// equal (None vs "") are ordered by seq so the comparison does not depend on map iteration.
pub fn canonicalize_cursor_status(v: &mut Value) {
    if let Some(rows) = v.get_mut("cursors").and_then(|c| c.as_array_mut()) {
        rows.sort_by_key(cursor_sort_key);
    }
}

/// provider_cursor.status: latest row per (provider, endpoint, model), first 32 keys seen scanning
/// from the tail; `active` = the latest cursor frame.
pub fn cursor_status(thread: &str, truth: &[Event]) -> Value {
    let mut active = Value::Null;
    let mut keys: Vec<(String, Option<String>, Option<String>)> = Vec::new();
    let mut rows: Vec<Value> = Vec::new();
    for e in truth.iter().rev() {
        let Some(row) = cursor_row(e) else { continue };
        if active.is_null() {
            active = row.clone();
        }
        let key = (
            row["provider"].as_str().unwrap_or("").to_string(),
            row["endpoint"].as_str().map(|s| s.to_string()),
            row["model"].as_str().map(|s| s.to_string()),
        );
        if !keys.contains(&key) {
            keys.push(key);
            rows.push(row);
        }
        if keys.len() >= 32 {
            break;
        }
    }
    let mut out = json!({"thread_id": thread, "active": active, "cursors": rows});
    canonicalize_cursor_status(&mut out);
    out
}

/// rotation target for the given filters: the latest cursor frame matching them.
pub fn rotate_target(
    truth: &[Event],
    provider: Option<&str>,
    endpoint: Option<&str>,
    model: Option<&str>,
) -> Value {
    for e in truth.iter().rev() {
        if let EventKind::ContinuityProviderCursorUpdated { provider: p, endpoint: ep, model: m, .. } = &e.kind {
            if let Some(f) = provider {
                if p != f {
                    continue;
                }
            }
            if let Some(f) = endpoint {
                if ep.as_deref() != Some(f) {
                    continue;
                }
            }
            if let Some(f) = model {
                if m.as_deref() != Some(f) {
                    continue;
                }
            }
            return json!({"rotated": true, "provider": p, "endpoint": ep, "model": m});
        }
    }
    json!({"rotated": false, "provider": null, "endpoint": null, "model": null})
}

/// context_selection.status: decisions latest first, at most min(limit.unwrap_or(10), 50).
pub fn selection_status(thread: &str, truth: &[Event], limit: Option<u32>) -> Value {
    let limit = (limit.unwrap_or(10) as usize).min(50);
    let mut decisions = Vec::new();
    for e in truth.iter().rev() {
        if decisions.len() >= limit {
            break;
        }
        if let EventKind::ContinuityContextSelectionDecided {
            run_session_id, message_id, compiler_id, compiler_strategy, limits, compaction_checkpoint,
            compaction_checkpoints, resets, reason, actor_id, origin,
        } = &e.kind
        {
            let mut d = json!({
                "decision_event_id": e.id, "run_session_id": run_session_id, "message_id": message_id,
                "compiler_id": compiler_id, "compiler_strategy": compiler_strategy, "limits": limits,
                "compaction_checkpoint": compaction_checkpoint,
                "resets": resets, "reason": reason, "actor_id": actor_id, "origin": origin,
                "seq": e.seq, "timestamp_ms": e.timestamp_ms,
            });
            if !compaction_checkpoints.is_empty() {
                d["compaction_checkpoints"] = serde_json::to_value(compaction_checkpoints).unwrap_or(Value::Null);
            }
            decisions.push(d);
        }
    }
    json!({"thread_id": thread, "decisions": decisions})
}

/// Branch / handoff cut resolution. Ok((cut_seq, message_id)) or Err(kind).
pub fn resolve_lineage_cut(
    truth: &[Event],
    from_message_id: Option<&str>,
    from_seq: Option<u64>,
) -> Result<(u64, Option<String>), String> {
    if from_message_id.is_some() && from_seq.is_some() {
        return Err("both_selectors".into());
    }
    if truth.is_empty() {
        return Err("no_such_thread".into());
    }
    let head = truth.last().map(|e| e.seq).unwrap_or(0);
    let msgs = messages(truth);
    if let Some(seq) = from_seq {
        if seq > head {
            return Err("seq_out_of_range".into());
        }
        let last = msgs.iter().rev().find(|(s, _)| *s <= seq).map(|(_, id)| id.clone());
        return Ok((seq, last));
    }
    if let Some(mid) = from_message_id {
        let Some((mseq, _)) = msgs.iter().find(|(_, id)| id == mid) else {
            return Err("message_not_found".into());
        };
        let mut cut = *mseq;
        for e in truth {
            match &e.kind {
                EventKind::ContinuityRunSpawned { message_id, .. } | EventKind::ContinuityRunEnded { message_id, .. }
                    if message_id == mid =>
                {
                    cut = cut.max(e.seq);
                }
                _ => {}
            }
        }
        return Ok((cut, Some(mid.to_string())));
    }
    Ok((head, msgs.last().map(|(_, id)| id.clone())))
}

pub fn wire(events: &[Event]) -> Vec<Value> {
    events.iter().map(|e| serde_json::to_value(e).unwrap_or(Value::Null)).collect()
}
