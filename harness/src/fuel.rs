//! H4 loop fuel: decides "this call terminates" without a clock. The hook point `scan.iter`
//! at the head of each bounded tail-scan loop bumps a thread-local counter; a doubling loop that
//! legitimately runs at most ~6–9 times and exceeds `LIMIT` iterations within one guarded call
//! panics with a recognisable payload, which `guarded` turns into `Err(NonTermination(loop))`.

use std::cell::RefCell;
use std::collections::BTreeMap;

pub const LIMIT: u64 = 24;
const PANIC_PREFIX: &str = "rv-fuel-exhausted:";

thread_local! {
    static ACTIVE: RefCell<bool> = const { RefCell::new(false) };
    static COUNTS: RefCell<BTreeMap<String, u64>> = const { RefCell::new(BTreeMap::new()) };
}

fn is_doubling_loop(name: &str) -> bool {
    name.ends_with(".tail") || name == "cache.last_seq" || name == "cache.last_message_backscan"
}

/// All hook points go through the dispatcher in sched.rs; it forwards `scan.*` here.
pub fn install() {
    crate::sched::install();
}

pub fn on_point(point: &str, ctx: &str) {
    let active = ACTIVE.with(|a| *a.borrow());
    if !active {
        return;
    }
    if point == "scan.enter" {
        // a new instance of the loop: its fuel starts over
        COUNTS.with(|c| {
            c.borrow_mut().insert(ctx.to_string(), 0);
        });
        return;
    }
    if point != "scan.iter" {
        return;
    }
    let n = COUNTS.with(|c| {
        let mut c = c.borrow_mut();
        let e = c.entry(ctx.to_string()).or_insert(0);
        *e += 1;
        *e
    });
    if is_doubling_loop(ctx) && n > LIMIT {
        panic!("{PANIC_PREFIX}{ctx}");
    }
}

#[derive(Debug, Clone)]
pub enum Guarded<T> {
    Done(T),
    /// the named loop exceeded its fuel
    NonTermination(String),
    /// the call panicked for another reason ("msg @ location")
    Panicked(String),
}

/// Run one call into the code under test with fresh fuel.
pub fn guarded<T>(f: impl FnOnce() -> T) -> Guarded<T> {
    install();
    COUNTS.with(|c| c.borrow_mut().clear());
    ACTIVE.with(|a| *a.borrow_mut() = true);
    let r = crate::engine::runner::catch(f);
    ACTIVE.with(|a| *a.borrow_mut() = false);
    match r {
        Ok(v) => Guarded::Done(v),
        Err(msg) => {
            if let Some(i) = msg.find(PANIC_PREFIX) {
                let rest = &msg[i + PANIC_PREFIX.len()..];
                let name = rest.split(" @ ").next().unwrap_or(rest).to_string();
                Guarded::NonTermination(name)
            } else {
                Guarded::Panicked(msg)
            }
        }
    }
}

/// Max iterations observed per loop during the last guarded call (for evidence).
pub fn last_counts() -> BTreeMap<String, u64> {
    COUNTS.with(|c| c.borrow().clone())
}
