//! The continuity read surface as comparable JSON outcomes: evaluated on a real store (with loop
//! fuel), and by the reference model over truth. Shared by C04 (cache faults) and C05 (crash points).

use std::collections::BTreeMap;

use proptest::prelude::*;
use rip_kernel::Event;
use ripd::{
    CompactionCutPointsV1Request, CompactionStatusV1Request, ContextSelectionStatusV1Request,
    ContinuityRunLink, ProviderCursorRotateV1Request, ProviderCursorStatusV1Request,
};
use serde::{Deserialize, Serialize};
use serde_json::{json, Value};

use crate::fuel::{guarded, Guarded};
use crate::model;
use crate::store::{CutSel, Interp, Live, Sandbox, ENDPOINTS, MODELS, PROVIDERS};

#[derive(Debug, Clone, Serialize, Deserialize)]
pub struct Params {
    pub strides: Vec<Option<u64>>,
    pub limits: Vec<Option<u32>>,
    pub sel_limit: Option<u32>,
    pub anchor: u16,
    pub rot: (Option<u8>, Option<u8>, Option<u8>),
    pub cut: CutSel,
}

pub fn params_strategy() -> BoxedStrategy<Params> {
    let stride = prop_oneof![
        4 => (1u64..5).prop_map(Some),
        1 => Just(Some(7u64)),
        1 => Just(Some(16u64)),
        1 => Just(Some(10_000u64)),
        1 => Just(None),
    ];
    let limit = prop_oneof![Just(None), Just(Some(1u32)), Just(Some(2)), Just(Some(32)), Just(Some(33))];
    (
        proptest::collection::vec(stride, 2),
        proptest::collection::vec(limit, 2),
        prop_oneof![Just(None), Just(Some(1u32)), Just(Some(2)), Just(Some(10)), Just(Some(50)), Just(Some(51))], // limit 0 is not specified by ADR-0016: not generated
        any::<u16>(),
        (proptest::option::of(0u8..3), proptest::option::of(0u8..3), proptest::option::of(0u8..3)),
        crate::store::cut_sel_strategy(),
    )
        .prop_map(|(strides, limits, sel_limit, anchor, rot, cut)| Params {
            strides,
            limits,
            sel_limit,
            anchor,
            rot,
            cut,
        })
        .boxed()
}

#[derive(Debug, Clone, PartialEq)]
pub enum Outcome {
    Ok(Value),
    Err,
    NonTerm(String),
    Panic(String),
    Skipped,
}

impl Outcome {
    pub fn brief(&self) -> Value {
        match self {
            Outcome::Ok(v) => {
                let s = v.to_string();
                if s.len() > 1500 {
                    json!({"ok_prefix": s.chars().take(1500).collect::<String>()})
                } else {
                    json!({ "ok": v })
                }
            }
            Outcome::Err => json!("Err"),
            Outcome::NonTerm(l) => json!({ "non_termination": l }),
            Outcome::Panic(p) => json!({ "panic": p }),
            Outcome::Skipped => json!("skipped"),
        }
    }
}

pub fn from_guarded<T, E>(g: Guarded<Result<T, E>>, f: impl FnOnce(T) -> Value) -> Outcome {
    match g {
        Guarded::Done(Ok(v)) => Outcome::Ok(f(v)),
        Guarded::Done(Err(_)) => Outcome::Err,
        Guarded::NonTermination(l) => Outcome::NonTerm(l),
        Guarded::Panicked(p) => Outcome::Panic(p),
    }
}

pub fn to_v<T: Serialize>(t: T) -> Value {
    serde_json::to_value(t).unwrap_or(Value::Null)
}

pub fn strip_inflight(mut v: Value) -> Value {
    if let Some(o) = v.as_object_mut() {
        o.remove("inflight_job_id");
    }
    v
}

/// The non-appending part of the read surface, evaluated on an open store.
pub fn surface(live: &Live, sb: &Sandbox, tid: &str, p: &Params, anchor: Option<&str>) -> BTreeMap<String, Outcome> {
    surface_filtered(live, sb, tid, p, anchor, None)
}

/// Every read on its OWN fresh copy of the store as found (so one read cannot heal the caches
/// for the next one: e.g. `replay` rebuilds a missing full sidecar).
pub fn surface_isolated(sb: &Sandbox, tid: &str, p: &Params, anchor: Option<&str>) -> BTreeMap<String, Outcome> {
    let mut keys: Vec<String> = vec!["replay".into(), "cursor_status".into(), "selection_status".into(), "compile".into()];
    for i in 0..p.strides.len().min(p.limits.len()) {
        keys.push(format!("cut_points#{i}"));
        keys.push(format!("status#{i}"));
    }
    let mut out = BTreeMap::new();
    for k in keys {
        let f = sb.fork("iso");
        let live = f.open();
        let one = surface_filtered(&live, &f, tid, p, anchor, Some(&k));
        out.extend(one);
    }
    out
}

struct Filtered<'a> {
    only: Option<&'a str>,
    map: BTreeMap<String, Outcome>,
}

impl Filtered<'_> {
    fn wants(&self, key: &str) -> bool {
        self.only.map(|o| o == key).unwrap_or(true)
    }
    fn insert(&mut self, key: String, f: impl FnOnce() -> Outcome) {
        if self.wants(&key) {
            let v = f();
            self.map.insert(key, v);
        }
    }
}

pub fn surface_filtered(live: &Live, sb: &Sandbox, tid: &str, p: &Params, anchor: Option<&str>, only: Option<&str>) -> BTreeMap<String, Outcome> {
    let mut out = Filtered { only, map: BTreeMap::new() };
    let s = &live.store;
    out.insert("replay".to_string(), || {
        from_guarded(guarded(|| s.replay_events(tid)), |ev| Value::Array(model::wire(&ev)))
    });
    for (i, (stride, limit)) in p.strides.iter().zip(p.limits.iter()).enumerate() {
        out.insert(format!("cut_points#{i}"), || {
            from_guarded(
                guarded(|| s.compaction_cut_points_v1(tid, CompactionCutPointsV1Request { stride_messages: *stride, limit: *limit })),
                to_v,
            )
        });
        out.insert(format!("status#{i}"), || {
            from_guarded(
                guarded(|| s.compaction_status_v1(tid, CompactionStatusV1Request { stride_messages: *stride })),
                |r| strip_inflight(to_v(r)),
            )
        });
    }
    out.insert("cursor_status".to_string(), || {
        from_guarded(guarded(|| s.provider_cursor_status_v1(tid, ProviderCursorStatusV1Request {})), |r| {
            let mut v = to_v(r);
            model::canonicalize_cursor_status(&mut v);
            v
        })
    });
    out.insert("selection_status".to_string(), || {
        from_guarded(
            guarded(|| s.context_selection_status_v1(tid, ContextSelectionStatusV1Request { limit: p.sel_limit })),
            to_v,
        )
    });
    match anchor {
        Some(mid) => {
            let link = ContinuityRunLink {
                continuity_id: tid.to_string(),
                message_id: mid.to_string(),
                actor_id: "user".to_string(),
                origin: "cli".to_string(),
            };
            let snap = sb.data.join("snapshots");
            out.insert("compile".to_string(), || {
                from_guarded(
                    guarded(|| ripd::verif::compile_context_for_run(s, &live.log, &snap, &link, "11111111-1111-4111-8111-111111111111")),
                    |v| {
                        // attach the bundle the artifact id names, so that ids and content are both compared
                        let id = v["bundle_artifact_id"].as_str().unwrap_or("").to_string();
                        let bundle: Value = std::fs::read(sb.blob_path(&id))
                            .ok()
                            .and_then(|b| serde_json::from_slice(&b).ok())
                            .unwrap_or(Value::Null);
                        // the artifact id itself is not a function of content (fresh per write): drop it
                        let mut v = v;
                        if let Some(o) = v.as_object_mut() {
                            o.remove("bundle_artifact_id");
                        }
                        json!({"result": v, "bundle": bundle})
                    },
                )
            });
        }
        None => {
            out.insert("compile".to_string(), || Outcome::Skipped);
        }
    }
    out.map
}

/// The appending reads (rotation target, branch cut resolution), evaluated on throw-away forks.
pub fn surface_appending(sb: &Sandbox, drop_caches: bool, tid: &str, p: &Params, it: &Interp) -> BTreeMap<String, Outcome> {
    let mut out = BTreeMap::new();
    {
        let f = sb.fork("rot");
        if drop_caches {
            let _ = std::fs::remove_dir_all(f.streams_dir());
        }
        let live = f.open();
        let req = ProviderCursorRotateV1Request {
            provider: p.rot.0.map(|x| PROVIDERS[x as usize % 3].to_string()),
            endpoint: p.rot.1.map(|x| ENDPOINTS[x as usize % 3].to_string()),
            model: p.rot.2.map(|x| MODELS[x as usize % 3].to_string()),
            reason: None,
            actor_id: "user".to_string(),
            origin: "cli".to_string(),
        };
        out.insert(
            "rotate_target".to_string(),
            from_guarded(guarded(|| live.store.provider_cursor_rotate_v1(tid, req)), |r| {
                json!({"rotated": r.rotated, "provider": r.provider, "endpoint": r.endpoint, "model": r.model})
            }),
        );
    }
    {
        let f = sb.fork("br");
        if drop_caches {
            let _ = std::fs::remove_dir_all(f.streams_dir());
        }
        let live = f.open();
        let (mid, seq) = it.resolve_cut(tid, &p.cut);
        out.insert(
            "branch_cut".to_string(),
            from_guarded(
                guarded(|| live.store.branch(tid, None, mid.clone(), seq, "user".to_string(), "cli".to_string())),
                |(_, cut_seq, cut_mid)| json!({"cut_seq": cut_seq, "cut_message_id": cut_mid}),
            ),
        );
    }
    out
}

pub fn model_surface(tid: &str, truth: &[Event], p: &Params, it: &Interp) -> BTreeMap<String, Outcome> {
    let mut out = BTreeMap::new();
    let r = |x: Result<Value, String>| match x {
        Ok(v) => Outcome::Ok(v),
        Err(_) => Outcome::Err,
    };
    out.insert("replay".to_string(), Outcome::Ok(Value::Array(model::wire(truth))));
    for (i, (stride, limit)) in p.strides.iter().zip(p.limits.iter()).enumerate() {
        out.insert(format!("cut_points#{i}"), r(model::cut_points(tid, truth, *stride, *limit)));
        out.insert(format!("status#{i}"), r(model::status(tid, truth, *stride)));
    }
    out.insert("cursor_status".to_string(), Outcome::Ok(model::cursor_status(tid, truth)));
    out.insert(
        "selection_status".to_string(),
        Outcome::Ok(model::selection_status(tid, truth, p.sel_limit)),
    );
    out.insert(
        "rotate_target".to_string(),
        Outcome::Ok(model::rotate_target(
            truth,
            p.rot.0.map(|x| PROVIDERS[x as usize % 3]),
            p.rot.1.map(|x| ENDPOINTS[x as usize % 3]),
            p.rot.2.map(|x| MODELS[x as usize % 3]),
        )),
    );
    let (mid, seq) = it.resolve_cut(tid, &p.cut);
    out.insert(
        "branch_cut".to_string(),
        match model::resolve_lineage_cut(truth, mid.as_deref(), seq) {
            Ok((s, m)) => Outcome::Ok(json!({"cut_seq": s, "cut_message_id": m})),
            Err(_) => Outcome::Err,
        },
    );
    out
}

