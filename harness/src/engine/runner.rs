//! Seeded, sharded proptest runner with known-finding tolerance, replay files and evidence.

use std::cell::RefCell;
use std::collections::{BTreeMap, HashSet};
use std::hash::{Hash, Hasher};
use std::panic::{catch_unwind, AssertUnwindSafe};
use std::path::PathBuf;
use std::sync::atomic::{AtomicBool, AtomicU64, Ordering};
use std::sync::{Arc, Mutex};
use std::time::Instant;

use proptest::strategy::{BoxedStrategy, Strategy};
use proptest::test_runner::{Config, RngSeed, TestCaseError, TestError, TestRunner};
use serde::de::DeserializeOwned;
use serde::Serialize;
use serde_json::{json, Value};

use super::findings::KnownFindings;
use super::{mix, parse_args, scratch, scrub_env, verif_root, Args, Tier};

#[derive(Debug, Clone, Serialize)]
pub struct Fail {
    pub sig: String,
    pub detail: Value,
}

#[derive(Debug, Default)]
pub struct CaseReport {
    pub nontrivial: bool,
    pub classes: Vec<String>,
    pub fails: Vec<Fail>,
    pub counters: Vec<(String, u64)>,
}

impl CaseReport {
    pub fn new() -> Self {
        Self::default()
    }
    pub fn class(&mut self, c: impl Into<String>) {
        let c = c.into();
        if !self.classes.contains(&c) {
            self.classes.push(c);
        }
    }
    pub fn class_if(&mut self, cond: bool, c: &str) {
        if cond {
            self.class(c);
        }
    }
    pub fn fail(&mut self, sig: impl Into<String>, detail: Value) {
        // keep the first occurrence of each signature: it is what the replay file shows
        let sig = sig.into();
        if !self.fails.iter().any(|f| f.sig == sig) {
            self.fails.push(Fail { sig, detail });
        }
    }
    pub fn count(&mut self, name: &str, n: u64) {
        if let Some(e) = self.counters.iter_mut().find(|(k, _)| k == name) {
            e.1 += n;
        } else {
            self.counters.push((name.to_string(), n));
        }
    }
    pub fn ok(&self) -> bool {
        self.fails.is_empty()
    }
    /// The case could not be decided (e.g. a wait for quiescence timed out). Never a violation;
    /// counted, and the run exits 2 if more than 5 % of all cases end up here.
    pub fn is_inconclusive(&self) -> bool {
        self.counters.iter().any(|(k, n)| k == "inconclusive" && *n > 0)
    }
    pub fn inconclusive(&mut self, why: &str) {
        self.count("inconclusive", 1);
        self.class(format!("inconclusive:{why}"));
    }
}

#[derive(Debug, Clone)]
pub struct GroupOpts {
    pub cases: u32,
    pub threads: usize,
    pub watchdog_s: u64,
    pub max_shrink_iters: u32,
}

impl Default for GroupOpts {
    fn default() -> Self {
        GroupOpts {
            cases: 100,
            threads: default_threads(),
            watchdog_s: 600,
            max_shrink_iters: 2000,
        }
    }
}

pub fn default_threads() -> usize {
    std::env::var("VERIF_THREADS")
        .ok()
        .and_then(|s| s.parse().ok())
        .unwrap_or_else(|| {
            std::thread::available_parallelism()
                .map(|n| n.get())
                .unwrap_or(4)
                .min(16)
        })
}

#[derive(Default)]
struct GroupStats {
    rule: String,
    evaluations: u64,
    nontrivial_hashes: HashSet<u64>,
    classes: BTreeMap<String, u64>,
    counters: BTreeMap<String, u64>,
    first_nontrivial: Option<Value>,
    largest: Option<(usize, Value)>,
    last: Option<Value>,
    regress_replayed: u64,
}

struct ViolationRecord {
    group: String,
    sig: String,
    replay: PathBuf,
}

pub struct Check {
    pub prop: &'static str,
    pub level: &'static str,
    pub args: Args,
    known: KnownFindings,
    groups: Vec<(String, GroupStats)>,
    violations: Vec<ViolationRecord>,
    known_seen: BTreeMap<String, u64>,
    notes: Vec<String>,
    assumptions: Vec<String>,
    extra: BTreeMap<String, Value>,
    start: Instant,
    replay_matched: bool,
    stop: Arc<AtomicBool>,
}

thread_local! {
    static LAST_PANIC: RefCell<Option<String>> = const { RefCell::new(None) };
}

fn install_quiet_panic_hook() {
    std::panic::set_hook(Box::new(|info| {
        let msg = if let Some(s) = info.payload().downcast_ref::<&str>() {
            s.to_string()
        } else if let Some(s) = info.payload().downcast_ref::<String>() {
            s.clone()
        } else {
            "<non-string panic>".to_string()
        };
        let loc = info
            .location()
            .map(|l| format!("{}:{}", l.file(), l.line()))
            .unwrap_or_default();
        if std::env::var_os("VERIF_SHOW_PANICS").is_some() {
            eprintln!("[panic] {msg} @ {loc}");
        }
        LAST_PANIC.with(|p| *p.borrow_mut() = Some(format!("{msg} @ {loc}")));
    }));
}

pub fn take_last_panic() -> Option<String> {
    LAST_PANIC.with(|p| p.borrow_mut().take())
}

/// Run `f`, converting a panic into `Err(message @ location)`.
pub fn catch<T>(f: impl FnOnce() -> T) -> Result<T, String> {
    let _ = take_last_panic();
    match catch_unwind(AssertUnwindSafe(f)) {
        Ok(v) => Ok(v),
        Err(_) => Err(take_last_panic().unwrap_or_else(|| "<panic>".to_string())),
    }
}

fn hash_str(s: &str) -> u64 {
    let mut h = std::collections::hash_map::DefaultHasher::new();
    s.hash(&mut h);
    h.finish()
}

fn clip_sample(v: &Value) -> Value {
    let s = v.to_string();
    if s.len() <= 6000 {
        v.clone()
    } else {
        let mut cut = 6000;
        while !s.is_char_boundary(cut) {
            cut -= 1;
        }
        json!({"clipped_json_prefix": &s[..cut], "full_len": s.len()})
    }
}

struct WatchSlot {
    started_ms: AtomicU64, // 0 = idle
    case: Mutex<String>,
}

impl Check {
    pub fn new(prop: &'static str, level: &'static str) -> Check {
        let args = parse_args();
        scrub_env();
        install_quiet_panic_hook();
        Check {
            prop,
            level,
            args,
            known: KnownFindings::load(prop),
            groups: Vec::new(),
            violations: Vec::new(),
            known_seen: BTreeMap::new(),
            notes: Vec::new(),
            assumptions: Vec::new(),
            extra: BTreeMap::new(),
            start: Instant::now(),
            replay_matched: false,
            stop: Arc::new(AtomicBool::new(false)),
        }
    }

    pub fn tier(&self) -> Tier {
        self.args.tier
    }

    /// case count for the current tier
    pub fn cases(&self, quick: u32, thorough: u32) -> u32 {
        let base = match self.args.tier {
            Tier::Quick => quick,
            Tier::Thorough => thorough,
        };
        ((base as f64 * self.args.scale).ceil() as u32).max(1)
    }

    pub fn assume(&mut self, s: impl Into<String>) {
        self.assumptions.push(s.into());
    }

    pub fn note(&mut self, s: impl Into<String>) {
        self.notes.push(s.into());
    }

    pub fn extra(&mut self, key: &str, v: Value) {
        self.extra.insert(key.to_string(), v);
    }

    pub fn known(&self) -> &KnownFindings {
        &self.known
    }

    fn group_enabled(&self, name: &str) -> bool {
        match &self.args.only {
            Some(o) => name.contains(o.as_str()),
            None => true,
        }
    }

    /// Run one group of generated cases. `f` must be a pure function of the case (plus the
    /// code under test): every random choice lives in `strategy`.
    pub fn group<C, G, F>(
        &mut self,
        name: &str,
        rule: &str,
        opts: GroupOpts,
        strategy: G,
        f: F,
    ) where
        C: std::fmt::Debug + Clone + Serialize + DeserializeOwned + Send + 'static,
        G: Fn() -> BoxedStrategy<C> + Sync,
        F: Fn(&C) -> CaseReport + Sync,
    {
        // ---- replay mode: run exactly the saved case, strictly
        if let Some(path) = self.args.replay.clone() {
            let doc: Value = match std::fs::read_to_string(&path)
                .map_err(|e| e.to_string())
                .and_then(|s| serde_json::from_str(&s).map_err(|e| e.to_string()))
            {
                Ok(v) => v,
                Err(e) => {
                    eprintln!("cannot read replay {}: {e}", path.display());
                    std::process::exit(2);
                }
            };
            if doc.get("group").and_then(|g| g.as_str()) != Some(name) {
                return;
            }
            self.replay_matched = true;
            let case: C = match serde_json::from_value(doc["case"].clone()) {
                Ok(c) => c,
                Err(e) => {
                    eprintln!("replay case does not deserialize for group {name}: {e}");
                    std::process::exit(2);
                }
            };
            let report = run_case(&f, &case);
            let mut stats = GroupStats {
                rule: rule.to_string(),
                ..Default::default()
            };
            stats.evaluations = 1;
            let cj = serde_json::to_value(&case).unwrap_or(Value::Null);
            if report.nontrivial {
                stats.nontrivial_hashes.insert(hash_str(&cj.to_string()));
            }
            stats.last = Some(clip_sample(&cj));
            for fl in &report.fails {
                if let Some(k) = self.known.matches(&fl.sig) {
                    *self.known_seen.entry(k.key.clone()).or_default() += 1;
                    println!("replay: known finding {} ({})", k.key, fl.sig);
                } else {
                    println!("replay: FAIL {} {}", fl.sig, fl.detail);
                    self.violations.push(ViolationRecord {
                        group: name.to_string(),
                        sig: fl.sig.clone(),
                        replay: path.clone(),
                    });
                }
            }
            if report.fails.is_empty() {
                println!("replay: case passes");
            }
            self.groups.push((name.to_string(), stats));
            return;
        }

        if !self.group_enabled(name) {
            return;
        }

        let t0 = Instant::now();
        let stats = Mutex::new(GroupStats {
            rule: rule.to_string(),
            ..Default::default()
        });
        let known_seen: Mutex<BTreeMap<String, u64>> = Mutex::new(BTreeMap::new());
        let mut violations: Vec<ViolationRecord> = Vec::new();

        // ---- pinned cases first: regressions (strict) and known-finding reproducers
        let mut pinned: Vec<(PathBuf, Value)> = Vec::new();
        let regress_dir = verif_root().join("replays/regress").join(self.prop);
        let known_dir = verif_root().join("replays/known").join(self.prop);
        for dir in [regress_dir, known_dir] {
            let mut files: Vec<PathBuf> = std::fs::read_dir(&dir)
                .map(|rd| rd.filter_map(|e| e.ok().map(|e| e.path())).collect())
                .unwrap_or_default();
            files.sort();
            for p in files {
                if p.extension().and_then(|e| e.to_str()) != Some("json") {
                    continue;
                }
                if let Ok(s) = std::fs::read_to_string(&p) {
                    if let Ok(doc) = serde_json::from_str::<Value>(&s) {
                        if doc.get("group").and_then(|g| g.as_str()) == Some(name) {
                            pinned.push((p, doc));
                        }
                    }
                }
            }
        }
        for (path, doc) in &pinned {
            let case: C = match serde_json::from_value(doc["case"].clone()) {
                Ok(c) => c,
                Err(e) => {
                    eprintln!(
                        "pinned case {} no longer deserializes ({e}); skipped",
                        path.display()
                    );
                    continue;
                }
            };
            let report = run_case(&f, &case);
            stats.lock().unwrap().regress_replayed += 1;
            for fl in &report.fails {
                if let Some(k) = self.known.matches(&fl.sig) {
                    *known_seen.lock().unwrap().entry(k.key.clone()).or_default() += 1;
                } else {
                    violations.push(ViolationRecord {
                        group: name.to_string(),
                        sig: fl.sig.clone(),
                        replay: path.clone(),
                    });
                }
            }
        }

        // ---- generated search, sharded
        let total = opts.cases.max(1);
        let shards = opts.threads.max(1).min(total as usize);
        let per = total / shards as u32;
        let rem = total % shards as u32;
        let group_seed = mix(self.args.seed ^ hash_str(&format!("{}/{}", self.prop, name)));
        let slots: Vec<Arc<WatchSlot>> = (0..shards)
            .map(|_| {
                Arc::new(WatchSlot {
                    started_ms: AtomicU64::new(0),
                    case: Mutex::new(String::new()),
                })
            })
            .collect();
        let done = Arc::new(AtomicBool::new(false));
        self.stop.store(false, Ordering::Relaxed);
        let stop = self.stop.clone();
        let known = &self.known;
        let prop = self.prop;
        let seed = self.args.seed;
        let found_dir = verif_root().join("replays/found");

        // watchdog
        let wd = {
            let slots = slots.clone();
            let done = done.clone();
            let budget_ms = opts.watchdog_s * 1000;
            let name = name.to_string();
            std::thread::spawn(move || {
                let t0 = Instant::now();
                while !done.load(Ordering::Relaxed) {
                    std::thread::sleep(std::time::Duration::from_millis(250));
                    let now = t0.elapsed().as_millis() as u64 + 1;
                    for s in &slots {
                        let st = s.started_ms.load(Ordering::Relaxed);
                        if st != 0 && now.saturating_sub(st) > budget_ms {
                            let case = s.case.lock().map(|c| c.clone()).unwrap_or_default();
                            let mut clip = case.len().min(4000);
                            while !case.is_char_boundary(clip) {
                                clip -= 1;
                            }
                            println!(
                                "INCONCLUSIVE property={prop} group={name}: a case exceeded the {}s watchdog; case={}",
                                budget_ms / 1000,
                                &case[..clip]
                            );
                            scratch::cleanup_root();
                            std::process::exit(2);
                        }
                    }
                }
            });
            t0
        };
        let _ = wd;
        let clock = Instant::now();

        let shard_results: Vec<Option<ViolationRecord>> = std::thread::scope(|scope| {
            let mut handles = Vec::new();
            for shard in 0..shards {
                let n = per + if (shard as u32) < rem { 1 } else { 0 };
                let strategy = &strategy;
                let slot = slots[shard].clone();
                let stats = &stats;
                let known_seen = &known_seen;
                let f = &f;
                let stop = stop.clone();
                let found_dir = found_dir.clone();
                let name = name.to_string();
                let max_shrink_iters = opts.max_shrink_iters;
                handles.push(scope.spawn(move || {
                    if n == 0 {
                        return None;
                    }
                    let shard_seed = mix(group_seed.wrapping_add(shard as u64));
                    let config = Config {
                        cases: n,
                        failure_persistence: None,
                        rng_seed: RngSeed::Fixed(shard_seed),
                        max_shrink_iters,
                        max_global_rejects: 1_000_000,
                        max_local_rejects: 1_000_000,
                        verbose: 0,
                        ..Config::default()
                    };
                    let strategy = strategy();
                    let mut runner = TestRunner::new(config);
                    let failed = std::cell::Cell::new(false);
                    let last_fail: RefCell<Option<(Value, Vec<Fail>)>> = RefCell::new(None);
                    let result = runner.run(&strategy, |case: C| {
                        if !failed.get() && stop.load(Ordering::Relaxed) {
                            return Ok(()); // another shard already reported: wind down
                        }
                        let cj = serde_json::to_value(&case).unwrap_or(Value::Null);
                        let cs = cj.to_string();
                        if let Ok(mut c) = slot.case.lock() {
                            *c = cs.clone();
                        }
                        slot.started_ms
                            .store(clock.elapsed().as_millis() as u64 + 1, Ordering::Relaxed);
                        let report = run_case(f, &case);
                        slot.started_ms.store(0, Ordering::Relaxed);
                        let unknown: Vec<Fail> = report
                            .fails
                            .iter()
                            .filter(|fl| known.matches(&fl.sig).is_none())
                            .cloned()
                            .collect();
                        if !failed.get() {
                            let mut st = stats.lock().unwrap();
                            st.evaluations += 1;
                            for c in &report.classes {
                                *st.classes.entry(c.clone()).or_default() += 1;
                            }
                            for (k, v) in &report.counters {
                                *st.counters.entry(k.clone()).or_default() += *v;
                            }
                            if report.nontrivial {
                                st.nontrivial_hashes.insert(hash_str(&cs));
                                if st.first_nontrivial.is_none() {
                                    st.first_nontrivial = Some(clip_sample(&cj));
                                }
                                let len = cs.len();
                                if st.largest.as_ref().map(|(l, _)| len > *l).unwrap_or(true) {
                                    st.largest = Some((len, clip_sample(&cj)));
                                }
                            }
                            if shard == 0 {
                                st.last = Some(clip_sample(&cj));
                            }
                            drop(st);
                            let mut ks = known_seen.lock().unwrap();
                            for fl in &report.fails {
                                if let Some(k) = known.matches(&fl.sig) {
                                    *ks.entry(k.key.clone()).or_default() += 1;
                                }
                            }
                        }
                        if !unknown.is_empty() {
                            failed.set(true);
                            let sig = unknown[0].sig.clone();
                            *last_fail.borrow_mut() = Some((cj, unknown));
                            return Err(TestCaseError::fail(sig));
                        }
                        Ok(())
                    });
                    match result {
                        Ok(()) => None,
                        Err(TestError::Fail(reason, _minimal)) => {
                            stop.store(true, Ordering::Relaxed);
                            let (cj, fails) = last_fail
                                .borrow_mut()
                                .take()
                                .unwrap_or((Value::Null, Vec::new()));
                            let _ = std::fs::create_dir_all(&found_dir);
                            let path = found_dir
                                .join(format!("{prop}-{name}-seed{seed}-shard{shard}.json"));
                            let sig = fails
                                .first()
                                .map(|f| f.sig.clone())
                                .unwrap_or_else(|| reason.message().to_string());
                            let doc = json!({
                                "property": prop,
                                "group": name,
                                "seed": seed,
                                "shard": shard,
                                "case": cj,
                                "fails": fails,
                            });
                            let _ = std::fs::write(
                                &path,
                                serde_json::to_string_pretty(&doc).unwrap_or_default(),
                            );
                            Some(ViolationRecord {
                                group: name,
                                sig,
                                replay: path,
                            })
                        }
                        Err(TestError::Abort(reason)) => {
                            println!(
                                "INCONCLUSIVE property={prop} group={name}: generator aborted: {reason}"
                            );
                            scratch::cleanup_root();
                            std::process::exit(2);
                        }
                    }
                }));
            }
            handles
                .into_iter()
                .map(|h| match h.join() {
                    Ok(v) => v,
                    Err(_) => {
                        println!("INCONCLUSIVE property={prop}: harness shard thread panicked");
                        scratch::cleanup_root();
                        std::process::exit(2);
                    }
                })
                .collect()
        });
        done.store(true, Ordering::Relaxed);

        violations.extend(shard_results.into_iter().flatten());
        let st = stats.into_inner().unwrap();
        eprintln!(
            "[{}:{}] {} cases, {} distinct non-trivial, {} pinned, {:.1}s{}",
            self.prop,
            name,
            st.evaluations,
            st.nontrivial_hashes.len(),
            st.regress_replayed,
            t0.elapsed().as_secs_f64(),
            if violations.is_empty() {
                String::new()
            } else {
                format!(", {} VIOLATION(S)", violations.len())
            }
        );
        for (k, v) in known_seen.into_inner().unwrap() {
            *self.known_seen.entry(k).or_default() += v;
        }
        self.violations.extend(violations);
        self.groups.push((name.to_string(), st));
    }

    /// Record a violation found outside a generated group (e.g. by an enumerating driver).
    pub fn report_fail(&mut self, group: &str, fl: Fail, case: Value) {
        if let Some(k) = self.known.matches(&fl.sig) {
            *self.known_seen.entry(k.key.clone()).or_default() += 1;
            return;
        }
        let found_dir = verif_root().join("replays/found");
        let _ = std::fs::create_dir_all(&found_dir);
        let path = found_dir.join(format!(
            "{}-{}-seed{}-direct{}.json",
            self.prop,
            group,
            self.args.seed,
            self.violations.len()
        ));
        let doc = json!({"property": self.prop, "group": group, "seed": self.args.seed,
            "case": case, "fails": [fl.clone()]});
        let _ = std::fs::write(&path, serde_json::to_string_pretty(&doc).unwrap_or_default());
        self.violations.push(ViolationRecord {
            group: group.to_string(),
            sig: fl.sig,
            replay: path,
        });
    }

    pub fn finish(self) -> ! {
        if self.args.replay.is_some() && !self.replay_matched {
            eprintln!("replay file names a group this check does not have");
            scratch::cleanup_root();
            std::process::exit(2);
        }
        let wall = self.start.elapsed().as_secs_f64();
        let mut evaluations = 0u64;
        let mut distinct = 0u64;
        let mut samples: Vec<Value> = Vec::new();
        let mut groups = serde_json::Map::new();
        let mut rules: Vec<String> = Vec::new();
        for (name, st) in &self.groups {
            evaluations += st.evaluations;
            distinct += st.nontrivial_hashes.len() as u64;
            rules.push(format!("[{}] {}", name, st.rule));
            let mut gs: Vec<Value> = Vec::new();
            if let Some(s) = &st.first_nontrivial {
                gs.push(json!({"group": name, "which": "first_nontrivial", "case": s}));
            }
            if let Some((_, s)) = &st.largest {
                if st.first_nontrivial.as_ref() != Some(s) {
                    gs.push(json!({"group": name, "which": "largest_nontrivial", "case": s}));
                }
            }
            if gs.is_empty() {
                if let Some(s) = &st.last {
                    gs.push(json!({"group": name, "which": "last", "case": s}));
                }
            }
            samples.extend(gs);
            groups.insert(
                name.clone(),
                json!({
                    "evaluations": st.evaluations,
                    "distinct_nontrivial": st.nontrivial_hashes.len(),
                    "classes": st.classes,
                    "counters": st.counters,
                    "pinned_cases_replayed": st.regress_replayed,
                }),
            );
        }
        let mut coverage = serde_json::Map::new();
        coverage.insert("evaluations".into(), json!(evaluations));
        coverage.insert("distinct_nontrivial".into(), json!(distinct));
        coverage.insert("rule".into(), json!(rules.join(" || ")));
        coverage.insert("samples".into(), Value::Array(samples));
        coverage.insert("groups".into(), Value::Object(groups));
        coverage.insert("excluded_known".into(), json!(self.known_seen));
        coverage.insert("notes".into(), json!(self.notes));
        coverage.insert(
            "violation_signatures".into(),
            json!(self
                .violations
                .iter()
                .map(|v| format!("{}: {}", v.group, v.sig))
                .collect::<Vec<_>>()),
        );
        for (k, v) in &self.extra {
            coverage.insert(k.clone(), v.clone());
        }
        let evidence = json!({
            "property_id": self.prop,
            "tier": self.args.tier.as_str(),
            "seed": self.args.seed,
            "level": self.level,
            "coverage": Value::Object(coverage),
            "assumptions": self.assumptions,
            "wall_s": (wall * 100.0).round() / 100.0,
            "violations": self.violations.len(),
        });
        if self.args.replay.is_none() && self.args.only.is_none() {
            let dir = verif_root().join("evidence");
            let _ = std::fs::create_dir_all(&dir);
            let path = dir.join(format!("{}.json", self.prop));
            if let Err(e) = std::fs::write(
                &path,
                serde_json::to_string_pretty(&evidence).unwrap_or_default() + "\n",
            ) {
                eprintln!("cannot write evidence {}: {e}", path.display());
            }
        }
        for f in &self.known.findings {
            if self.known_seen.get(&f.key).copied().unwrap_or(0) > 0 {
                println!(
                    "KNOWN-FINDING: property={} {} [{}; seen {}x]",
                    self.prop, f.what, f.key, self.known_seen[&f.key]
                );
            } else if self.args.replay.is_none() {
                eprintln!(
                    "note: known finding {} did not reproduce in this run",
                    f.key
                );
            }
        }
        let mut seen = HashSet::new();
        for v in &self.violations {
            if seen.insert(v.replay.clone()) {
                println!(
                    "VIOLATION property={} replay={}",
                    self.prop,
                    v.replay.display()
                );
                println!("  group={} signature={}", v.group, v.sig);
            }
        }
        println!(
            "{} {} tier={} seed={} evaluations={} distinct_nontrivial={} violations={} wall={:.1}s",
            self.prop,
            if self.violations.is_empty() {
                "OK"
            } else {
                "FAILED"
            },
            self.args.tier.as_str(),
            self.args.seed,
            evaluations,
            distinct,
            self.violations.len(),
            wall
        );
        scratch::cleanup_root();
        let inconclusive: u64 = self
            .groups
            .iter()
            .map(|(_, st)| st.counters.get("inconclusive").copied().unwrap_or(0))
            .sum();
        if self.violations.is_empty() && evaluations > 0 && inconclusive * 20 > evaluations {
            println!(
                "INCONCLUSIVE property={}: {} of {} cases could not be decided (timeouts)",
                self.prop, inconclusive, evaluations
            );
            std::process::exit(2);
        }
        std::process::exit(if self.violations.is_empty() { 0 } else { 1 });
    }
}

fn run_case<C, F: Fn(&C) -> CaseReport>(f: &F, case: &C) -> CaseReport {
    match catch(|| f(case)) {
        Ok(r) => r,
        Err(msg) => {
            let mut r = CaseReport::new();
            // a panic that escapes a property body is a harness-or-code crash the property did
            // not classify; report it under a stable signature (location only)
            let loc = msg.rsplit(" @ ").next().unwrap_or("").to_string();
            r.fail(format!("uncaught_panic|{loc}"), json!({ "panic": msg }));
            r
        }
    }
}

pub fn boxed<S: Strategy + 'static>(s: S) -> BoxedStrategy<S::Value>
where
    S::Value: 'static,
{
    s.boxed()
}
