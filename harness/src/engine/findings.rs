//! /verif/known_findings.json: committed, never written at run time.
//!
//! {"findings":[{"property":"C04","key":"<signature prefix>","what":"...","repro":"replays/known/..json"}],
//!  "fixed":[{"property":"C20","commit":"<sha>","what":"...","repro":"replays/regress/C20/..json"}]}
//!
//! A violation is tolerated only when its signature starts with the `key` of a listed finding
//! of the same property. `fixed` entries suppress nothing.

use serde::Deserialize;

#[derive(Debug, Clone, Deserialize)]
pub struct Finding {
    pub property: String,
    pub key: String,
    pub what: String,
    #[serde(default)]
    pub repro: Option<String>,
}

#[derive(Debug, Clone, Deserialize, Default)]
pub struct KnownFindings {
    #[serde(default)]
    pub findings: Vec<Finding>,
}

impl KnownFindings {
    pub fn load(prop: &str) -> KnownFindings {
        let path = super::verif_root().join("known_findings.json");
        let mut all: KnownFindings = match std::fs::read_to_string(&path) {
            Ok(s) => serde_json::from_str(&s).unwrap_or_else(|e| {
                eprintln!("known_findings.json unreadable: {e}");
                std::process::exit(2);
            }),
            Err(_) => KnownFindings::default(),
        };
        all.findings.retain(|f| f.property == prop);
        all
    }

    pub fn matches(&self, sig: &str) -> Option<&Finding> {
        self.findings.iter().find(|f| sig.starts_with(&f.key))
    }
}
