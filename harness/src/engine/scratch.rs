//! Scratch directories (tmpfs when available). One root per process, removed at exit.

use std::path::{Path, PathBuf};
use std::sync::atomic::{AtomicU64, Ordering};
use std::sync::OnceLock;

static ROOT: OnceLock<PathBuf> = OnceLock::new();
static COUNTER: AtomicU64 = AtomicU64::new(0);

pub fn root() -> &'static Path {
    ROOT.get_or_init(|| {
        let base = if Path::new("/dev/shm").is_dir() {
            PathBuf::from("/dev/shm")
        } else {
            std::env::temp_dir()
        };
        let dir = base.join(format!("rv-{}", std::process::id()));
        let _ = std::fs::remove_dir_all(&dir);
        std::fs::create_dir_all(&dir).expect("scratch root");
        dir
    })
}

/// A fresh, empty directory; removed when the guard drops.
pub struct Scratch {
    path: PathBuf,
}

impl Scratch {
    pub fn new(tag: &str) -> Scratch {
        let n = COUNTER.fetch_add(1, Ordering::Relaxed);
        let path = root().join(format!("{tag}-{n}"));
        std::fs::create_dir_all(&path).expect("scratch dir");
        Scratch { path }
    }
    pub fn path(&self) -> &Path {
        &self.path
    }
    pub fn join(&self, p: impl AsRef<Path>) -> PathBuf {
        self.path.join(p)
    }
}

impl Drop for Scratch {
    fn drop(&mut self) {
        let _ = std::fs::remove_dir_all(&self.path);
    }
}

pub fn cleanup_root() {
    if let Some(root) = ROOT.get() {
        let _ = std::fs::remove_dir_all(root);
    }
}

/// Recursive byte copy of a directory (no hard links, no symlink following beyond files).
pub fn copy_dir(src: &Path, dst: &Path) -> std::io::Result<()> {
    std::fs::create_dir_all(dst)?;
    for entry in std::fs::read_dir(src)? {
        let entry = entry?;
        let ty = entry.file_type()?;
        let to = dst.join(entry.file_name());
        if ty.is_dir() {
            copy_dir(&entry.path(), &to)?;
        } else if ty.is_file() {
            std::fs::copy(entry.path(), &to)?;
        }
    }
    Ok(())
}
