//! Shared engine: CLI, seeded proptest runner with sharding, known-findings matcher,
//! replay files, evidence writer, watchdog, scratch dirs, env scrubbing.

pub mod findings;
pub mod runner;
pub mod scratch;

pub use runner::{CaseReport, Check, Fail, GroupOpts};

use std::path::PathBuf;

#[derive(Debug, Clone, Copy, PartialEq, Eq)]
pub enum Tier {
    Quick,
    Thorough,
}

impl Tier {
    pub fn as_str(self) -> &'static str {
        match self {
            Tier::Quick => "quick",
            Tier::Thorough => "thorough",
        }
    }
}

#[derive(Debug, Clone)]
pub struct Args {
    pub tier: Tier,
    pub seed: u64,
    pub replay: Option<PathBuf>,
    /// only run groups whose name contains this (debugging aid; the evidence file is NOT rewritten by such a run)
    pub only: Option<String>,
    /// multiply case counts (debugging aid)
    pub scale: f64,
}

pub fn parse_args() -> Args {
    let mut tier = match std::env::var("VERIF_TIER").ok().as_deref() {
        Some("thorough") => Tier::Thorough,
        _ => Tier::Quick,
    };
    let mut seed: u64 = std::env::var("VERIF_SEED")
        .ok()
        .and_then(|s| s.trim().parse::<i128>().ok())
        .map(|v| v as u64)
        .unwrap_or(1);
    let mut replay = None;
    let mut only = None;
    let mut scale = 1.0;
    let argv: Vec<String> = std::env::args().skip(1).collect();
    let mut i = 0;
    while i < argv.len() {
        match argv[i].as_str() {
            "--tier" => {
                i += 1;
                tier = match argv.get(i).map(|s| s.as_str()) {
                    Some("thorough") => Tier::Thorough,
                    _ => Tier::Quick,
                };
            }
            "--seed" => {
                i += 1;
                if let Some(s) = argv.get(i).and_then(|s| s.parse::<u64>().ok()) {
                    seed = s;
                }
            }
            "--replay" => {
                i += 1;
                replay = argv.get(i).map(PathBuf::from);
            }
            "--only" => {
                i += 1;
                only = argv.get(i).cloned();
            }
            "--scale" => {
                i += 1;
                scale = argv.get(i).and_then(|s| s.parse().ok()).unwrap_or(1.0);
            }
            _ => {}
        }
        i += 1;
    }
    if seed == 0 {
        seed = 1;
    }
    Args {
        tier,
        seed,
        replay,
        only,
        scale,
    }
}

pub fn verif_root() -> PathBuf {
    std::env::var_os("VERIF_ROOT")
        .map(PathBuf::from)
        .unwrap_or_else(|| PathBuf::from("/verif"))
}

/// Remove every environment variable the code under test reads outside cfg(test), and point
/// HOME / RIP_CONFIG_HOME at an empty directory so global config can never leak in.
pub fn scrub_env() {
    let keys: Vec<String> = std::env::vars_os()
        .filter_map(|(k, _)| k.into_string().ok())
        .filter(|k| {
            k.starts_with("RIP_")
                || k == "OPENAI_API_KEY"
                || k == "OPENROUTER_API_KEY"
                || k.starts_with("PROPTEST_")
        })
        .collect();
    for k in keys {
        std::env::remove_var(k);
    }
    let home = scratch::root().join("home");
    let _ = std::fs::create_dir_all(&home);
    std::env::set_var("HOME", &home);
    std::env::set_var("RIP_CONFIG_HOME", home.join("cfg"));
    std::env::set_var("XDG_CONFIG_HOME", home.join("xdg"));
}

/// splitmix64, used only to derive per-shard seeds from VERIF_SEED.
pub fn mix(mut z: u64) -> u64 {
    z = z.wrapping_add(0x9E37_79B9_7F4A_7C15);
    z = (z ^ (z >> 30)).wrapping_mul(0xBF58_476D_1CE4_E5B9);
    z = (z ^ (z >> 27)).wrapping_mul(0x94D0_49BB_1331_11EB);
    z ^ (z >> 31)
}

/// Monotone index mapping for shrink-friendly selection: maps a u16 "choice" into 0..len.
pub fn pick(choice: u16, len: usize) -> usize {
    if len == 0 {
        0
    } else {
        ((choice as usize) * len) >> 16
    }
}
