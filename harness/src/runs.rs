//! Authority-in-a-box: the real router over a sandboxed store, optionally wired to the scripted
//! provider (E5), with helpers to post messages / inputs and to wait for quiescence.
//! Waiting uses the wall clock only to give up (=> inconclusive), never to decide a verdict.

use std::time::{Duration, Instant};

use axum::http::{Method, StatusCode};
use axum::Router;
use ripd::verif::{OpenResponsesConfig, ToolChoiceParam};
use serde_json::{json, Value};

use crate::http::{call_json, sse_collect};
use crate::store::Sandbox;

pub struct Authority {
    pub sandbox: Sandbox,
    pub router: Router,
}

pub fn provider_config(endpoint: String) -> OpenResponsesConfig {
    OpenResponsesConfig {
        endpoint,
        api_key: None,
        model: Some("test-model".to_string()),
        headers: Vec::new(),
        tool_choice: ToolChoiceParam::auto(),
        followup_user_message: None,
        stateless_history: false,
        parallel_tool_calls: false,
    }
}

impl Authority {
    /// Must be called inside a tokio runtime (the engine spawns tasks on it).
    pub fn new(tag: &str, provider: Option<OpenResponsesConfig>) -> Authority {
        let sandbox = Sandbox::new(tag);
        let router = ripd::verif::build_router(sandbox.data.clone(), sandbox.ws.clone(), provider, false);
        Authority { sandbox, router }
    }

    pub fn on(sandbox: Sandbox, provider: Option<OpenResponsesConfig>) -> Authority {
        let router = ripd::verif::build_router(sandbox.data.clone(), sandbox.ws.clone(), provider, false);
        Authority { sandbox, router }
    }

    pub async fn ensure_thread(&self) -> Option<String> {
        let (s, v) = call_json(&self.router, Method::POST, "/threads/ensure", None).await;
        if s.is_success() {
            v.get("thread_id").and_then(|t| t.as_str()).map(|s| s.to_string())
        } else {
            None
        }
    }

    /// POST /threads/{id}/messages → (status, {thread_id, message_id, session_id})
    pub async fn post_message(&self, thread: &str, content: &str, overrides: Option<Value>) -> (StatusCode, Value) {
        let mut body = json!({"content": content, "actor_id": "user", "origin": "test"});
        if let Some(o) = overrides {
            body["openresponses"] = o;
        }
        call_json(&self.router, Method::POST, &format!("/threads/{thread}/messages"), Some(body)).await
    }

    pub async fn create_session(&self) -> Option<String> {
        let (_s, v) = call_json(&self.router, Method::POST, "/sessions", None).await;
        v.get("session_id").and_then(|t| t.as_str()).map(|s| s.to_string())
    }

    pub async fn send_input(&self, session: &str, input: &str) -> StatusCode {
        let (s, _) = call_json(
            &self.router,
            Method::POST,
            &format!("/sessions/{session}/input"),
            Some(json!({"input": input})),
        )
        .await;
        s
    }

    /// Read the session's SSE stream until a `session_ended` frame arrives (or `idle` passes
    /// without any new data). Returns parsed frames and whether the end frame was seen.
    pub async fn session_frames(&self, session: &str, idle: Duration) -> (Vec<Value>, bool) {
        let (_s, payloads, _) = sse_collect(&self.router, &format!("/sessions/{session}/events"), idle, |p| {
            p.last().map(|l| l.contains("\"type\":\"session_ended\"")).unwrap_or(false)
        })
        .await;
        let frames: Vec<Value> = payloads.iter().filter_map(|p| serde_json::from_str(p).ok()).collect();
        let ended = frames.iter().any(|f| f["type"] == "session_ended");
        (frames, ended)
    }

    /// Wait until the truth log holds `continuity_run_ended` for this run session.
    pub async fn wait_run_ended(&self, session: &str, timeout: Duration) -> bool {
        use std::io::{Read, Seek, SeekFrom};
        let needle = format!("\"run_session_id\":\"{session}\"");
        let t0 = Instant::now();
        // incremental scan: only bytes appended since the last look are read (whole lines)
        let mut offset: u64 = 0;
        let mut carry: Vec<u8> = Vec::new();
        loop {
            if let Ok(mut f) = std::fs::File::open(self.sandbox.log_path()) {
                let len = f.metadata().map(|m| m.len()).unwrap_or(0);
                if len < offset {
                    offset = 0;
                    carry.clear();
                }
                if len > offset && f.seek(SeekFrom::Start(offset)).is_ok() {
                    let mut buf = Vec::with_capacity((len - offset) as usize);
                    if f.take(len - offset).read_to_end(&mut buf).is_ok() {
                        offset += buf.len() as u64;
                        carry.extend_from_slice(&buf);
                        let upto = carry.iter().rposition(|b| *b == b'\n').map(|p| p + 1).unwrap_or(0);
                        let found = {
                            let text = String::from_utf8_lossy(&carry[..upto]);
                            text.lines().any(|l| l.contains("\"type\":\"continuity_run_ended\"") && l.contains(&needle))
                        };
                        if found {
                            return true;
                        }
                        carry.drain(..upto);
                    }
                }
            }
            if t0.elapsed() > timeout {
                return false;
            }
            tokio::time::sleep(Duration::from_millis(3)).await;
        }
    }

    /// Wait until the session snapshot file exists (written after the terminal session frame).
    pub async fn wait_snapshot(&self, session: &str, timeout: Duration) -> bool {
        let path = self.sandbox.data.join("snapshots").join(format!("{session}.json"));
        let t0 = Instant::now();
        loop {
            if path.exists() {
                return true;
            }
            if t0.elapsed() > timeout {
                return false;
            }
            tokio::time::sleep(Duration::from_millis(3)).await;
        }
    }

    /// Truth frames of a session stream, from the raw log.
    pub fn truth_session(&self, session: &str) -> Vec<Value> {
        self.sandbox
            .truth_values()
            .unwrap_or_default()
            .into_iter()
            .filter(|v| v["stream_kind"] == "session" && v["stream_id"] == session)
            .collect()
    }
}

pub fn runtime(workers: usize) -> tokio::runtime::Runtime {
    tokio::runtime::Builder::new_multi_thread()
        .worker_threads(workers.max(1))
        .enable_all()
        .build()
        .expect("tokio runtime")
}
