pub mod engine;
pub mod gen;
