pub mod engine;
pub mod gen;
pub mod tree;
