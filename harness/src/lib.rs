pub mod engine;
pub mod gen;
pub mod tree;
pub mod ws_common;
pub mod store;
pub mod http;
pub mod fault;
