//! Drive the real axum router in-process (tower oneshot), including bounded SSE reads.

use std::time::Duration;

use axum::body::Body;
use axum::http::{Method, Request, StatusCode};
use axum::Router;
use futures_util::StreamExt;
use http_body_util::BodyExt;
use serde_json::Value;
use tower::ServiceExt;

pub async fn call(
    router: &Router,
    method: Method,
    path: &str,
    body: Option<Value>,
) -> (StatusCode, Vec<u8>) {
    let builder = Request::builder().method(method).uri(path);
    let req = match body {
        Some(v) => builder
            .header("content-type", "application/json")
            .body(Body::from(v.to_string()))
            .expect("request"),
        None => builder.body(Body::empty()).expect("request"),
    };
    let resp = router.clone().oneshot(req).await.expect("router infallible");
    let status = resp.status();
    let bytes = resp
        .into_body()
        .collect()
        .await
        .map(|c| c.to_bytes().to_vec())
        .unwrap_or_default();
    (status, bytes)
}

pub async fn call_json(
    router: &Router,
    method: Method,
    path: &str,
    body: Option<Value>,
) -> (StatusCode, Value) {
    let (s, b) = call(router, method, path, body).await;
    (s, serde_json::from_slice(&b).unwrap_or(Value::Null))
}

/// Raw body of an arbitrary (possibly malformed) request.
pub async fn call_raw(
    router: &Router,
    method: Method,
    path: &str,
    content_type: Option<&str>,
    body: Vec<u8>,
) -> (StatusCode, Vec<u8>) {
    let mut builder = Request::builder().method(method).uri(path);
    if let Some(ct) = content_type {
        builder = builder.header("content-type", ct);
    }
    let req = match builder.body(Body::from(body)) {
        Ok(r) => r,
        Err(_) => return (StatusCode::BAD_REQUEST, Vec::new()),
    };
    let resp = router.clone().oneshot(req).await.expect("router infallible");
    let status = resp.status();
    let bytes = resp
        .into_body()
        .collect()
        .await
        .map(|c| c.to_bytes().to_vec())
        .unwrap_or_default();
    (status, bytes)
}

/// Parsed `data:` payloads of an SSE body.
pub fn sse_data_payloads(body: &str) -> Vec<String> {
    let mut out = Vec::new();
    let mut cur: Vec<&str> = Vec::new();
    for line in body.split('\n') {
        let line = line.strip_suffix('\r').unwrap_or(line);
        if line.is_empty() {
            if !cur.is_empty() {
                out.push(cur.join("\n"));
                cur.clear();
            }
        } else if let Some(rest) = line.strip_prefix("data:") {
            cur.push(rest.strip_prefix(' ').unwrap_or(rest));
        }
    }
    if !cur.is_empty() {
        out.push(cur.join("\n"));
    }
    out
}

/// Open an SSE endpoint and read frames until `stop(&payloads)` is true, the body ends, or
/// `idle` passes without a new chunk. Returns (status, payloads, ended_by_body_end).
pub async fn sse_collect(
    router: &Router,
    path: &str,
    idle: Duration,
    mut stop: impl FnMut(&[String]) -> bool,
) -> (StatusCode, Vec<String>, bool) {
    let req = Request::builder()
        .method(Method::GET)
        .uri(path)
        .body(Body::empty())
        .expect("request");
    let resp = router.clone().oneshot(req).await.expect("router infallible");
    let status = resp.status();
    let mut stream = resp.into_body().into_data_stream();
    let mut text = String::new();
    let mut ended = false;
    loop {
        let payloads = sse_data_payloads_complete(&text);
        if stop(&payloads) {
            return (status, payloads, false);
        }
        match tokio::time::timeout(idle, stream.next()).await {
            Ok(Some(Ok(chunk))) => text.push_str(&String::from_utf8_lossy(&chunk)),
            Ok(Some(Err(_))) | Ok(None) => {
                ended = true;
                break;
            }
            Err(_) => break,
        }
    }
    (status, sse_data_payloads_complete(&text), ended)
}

/// Only events terminated by a blank line.
fn sse_data_payloads_complete(text: &str) -> Vec<String> {
    match text.rfind("\n\n") {
        Some(i) => sse_data_payloads(&text[..i + 2]),
        None => Vec::new(),
    }
}
