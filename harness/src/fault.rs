//! G-fault: cache faults over `data/continuity_streams/*` — exactly the kinds the property lists:
//! delete / truncate at any byte / overwrite with garbage / roll back to an earlier version
//! (plus the two line-granular truncations that model a crash after a truth append).
//! Crafted well-formed caches (another thread's files swapped in) are deliberately not generated.

use std::collections::BTreeMap;
use std::path::{Path, PathBuf};

use proptest::prelude::*;
use serde::{Deserialize, Serialize};

use crate::engine::pick;

#[derive(Debug, Clone, Serialize, Deserialize, PartialEq)]
pub enum FaultKind {
    Delete,
    /// keep pick(frac, len+1) bytes
    TruncateAt(u16),
    /// keep the first pick(k, lines+1) whole lines
    TruncateLines(u16),
    DropLastLine,
    /// replace the content
    Garbage(Vec<u8>),
    AppendGarbage(Vec<u8>),
    /// overwrite pick(at,len) .. with these bytes (in-place corruption, same length)
    Corrupt { at: u16, bytes: Vec<u8> },
    /// restore the bytes the file had at an earlier recorded version (pick(v, versions))
    Rollback(u16),
}

impl FaultKind {
    pub fn tag(&self) -> &'static str {
        match self {
            FaultKind::Delete => "delete",
            FaultKind::TruncateAt(_) => "truncate_at",
            FaultKind::TruncateLines(_) => "truncate_lines",
            FaultKind::DropLastLine => "drop_last_line",
            FaultKind::Garbage(_) => "garbage",
            FaultKind::AppendGarbage(_) => "append_garbage",
            FaultKind::Corrupt { .. } => "corrupt",
            FaultKind::Rollback(_) => "rollback",
        }
    }
}

#[derive(Debug, Clone, Serialize, Deserialize, PartialEq)]
pub struct Fault {
    /// which cache file (choice over the sorted list of files present)
    pub file: u16,
    pub kind: FaultKind,
}

pub fn garbage_bytes() -> BoxedStrategy<Vec<u8>> {
    prop_oneof![
        Just(Vec::new()),
        Just(b"\n".to_vec()),
        Just(b"{}\n".to_vec()),
        Just(b"not json\n".to_vec()),
        Just(b"{\"seq\":".to_vec()),
        proptest::collection::vec(any::<u8>(), 1..40),
        Just(vec![0u8; 64]),
    ]
    .boxed()
}

pub fn fault_kind_strategy() -> BoxedStrategy<FaultKind> {
    prop_oneof![
        4 => Just(FaultKind::Delete),
        4 => any::<u16>().prop_map(FaultKind::TruncateAt),
        2 => any::<u16>().prop_map(FaultKind::TruncateLines),
        2 => Just(FaultKind::DropLastLine),
        3 => garbage_bytes().prop_map(FaultKind::Garbage),
        2 => garbage_bytes().prop_map(FaultKind::AppendGarbage),
        // `Corrupt` (in-place byte flips that can leave every record well-formed) is deliberately
        // not generated: the property lists delete / truncate / overwrite with garbage / roll back.
        3 => any::<u16>().prop_map(FaultKind::Rollback),
    ]
    .boxed()
}

pub fn fault_strategy() -> BoxedStrategy<Fault> {
    (any::<u16>(), fault_kind_strategy())
        .prop_map(|(file, kind)| Fault { file, kind })
        .boxed()
}

/// Recorded earlier versions of the cache files (for Rollback).
#[derive(Default, Clone)]
pub struct Versions {
    pub by_file: BTreeMap<String, Vec<Vec<u8>>>,
}

impl Versions {
    /// Record the current bytes of every file in `dir` (dedup consecutive equal versions).
    pub fn record(&mut self, dir: &Path) {
        for (name, path) in cache_files(dir) {
            if let Ok(bytes) = std::fs::read(&path) {
                let v = self.by_file.entry(name).or_default();
                if v.last() != Some(&bytes) {
                    v.push(bytes);
                }
            }
        }
    }
}

pub fn cache_files(dir: &Path) -> Vec<(String, PathBuf)> {
    let mut out: Vec<(String, PathBuf)> = std::fs::read_dir(dir)
        .map(|rd| {
            rd.filter_map(|e| e.ok())
                .filter(|e| e.file_type().map(|t| t.is_file()).unwrap_or(false))
                .map(|e| (e.file_name().to_string_lossy().to_string(), e.path()))
                .collect()
        })
        .unwrap_or_default();
    out.sort();
    out
}

/// Short class name of a cache file: the part after the thread id.
pub fn cache_suffix(name: &str) -> String {
    // names look like <uuid>.jsonl, <uuid>.mr.v1.jsonl, <uuid>.seek.v1.jsonl, …
    match name.find('.') {
        Some(i) => name[i..].to_string(),
        None => name.to_string(),
    }
}

#[derive(Debug, Clone, Serialize)]
pub struct Applied {
    pub file: String,
    pub suffix: String,
    pub kind: &'static str,
    pub changed: bool,
    /// the fault produced a file that is a strict line-prefix of what was there (stale-looking,
    /// still well-formed): the class that tail-only validation cannot detect
    pub stale_prefix: bool,
}

/// Apply one fault. Returns None when there is no cache file to hit.
pub fn apply(dir: &Path, fault: &Fault, versions: &Versions) -> Option<Applied> {
    let files = cache_files(dir);
    if files.is_empty() {
        return None;
    }
    let (name, path) = files[pick(fault.file, files.len())].clone();
    let before = std::fs::read(&path).unwrap_or_default();
    let mut after: Option<Vec<u8>> = None; // None = delete
    match &fault.kind {
        FaultKind::Delete => {}
        FaultKind::TruncateAt(f) => {
            let keep = pick(*f, before.len() + 1);
            after = Some(before[..keep].to_vec());
        }
        FaultKind::TruncateLines(k) => {
            let ends: Vec<usize> = before
                .iter()
                .enumerate()
                .filter(|(_, b)| **b == b'\n')
                .map(|(i, _)| i + 1)
                .collect();
            let keep_lines = pick(*k, ends.len() + 1);
            let keep = if keep_lines == 0 { 0 } else { ends[keep_lines - 1] };
            after = Some(before[..keep].to_vec());
        }
        FaultKind::DropLastLine => {
            let trimmed = if before.last() == Some(&b'\n') {
                &before[..before.len() - 1]
            } else {
                &before[..]
            };
            let keep = trimmed.iter().rposition(|b| *b == b'\n').map(|i| i + 1).unwrap_or(0);
            after = Some(before[..keep].to_vec());
        }
        FaultKind::Garbage(g) => after = Some(g.clone()),
        FaultKind::AppendGarbage(g) => {
            let mut v = before.clone();
            v.extend_from_slice(g);
            after = Some(v);
        }
        FaultKind::Corrupt { at, bytes } => {
            let mut v = before.clone();
            if !v.is_empty() {
                let start = pick(*at, v.len());
                for (i, b) in bytes.iter().enumerate() {
                    if start + i < v.len() {
                        v[start + i] = *b;
                    }
                }
            }
            after = Some(v);
        }
        FaultKind::Rollback(v) => {
            let vs = versions.by_file.get(&name).cloned().unwrap_or_default();
            if vs.is_empty() {
                after = Some(before.clone());
            } else {
                after = Some(vs[pick(*v, vs.len())].clone());
            }
        }
    }
    let (changed, stale_prefix) = match &after {
        None => {
            let _ = std::fs::remove_file(&path);
            (true, false)
        }
        Some(bytes) => {
            let changed = *bytes != before;
            if changed {
                let _ = std::fs::write(&path, bytes);
            }
            // a whitespace-only file reads as "no records yet": the image of the earliest version
            let blank = bytes.iter().all(|b| b.is_ascii_whitespace());
            let stale = changed
                && (blank
                    || (bytes.len() < before.len()
                        && before.starts_with(bytes)
                        // cut after a whole record: right after its newline, or right before it
                        && (bytes.last() == Some(&b'\n') || before.get(bytes.len()) == Some(&b'\n'))));
            (changed, stale)
        }
    };
    Some(Applied {
        suffix: cache_suffix(&name),
        file: name,
        kind: fault.kind.tag(),
        changed,
        stale_prefix,
    })
}
