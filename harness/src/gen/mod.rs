//! Shared generators.
pub mod frame;
pub mod json;
pub mod text;
