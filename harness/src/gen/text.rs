//! Text generators: a unicode mix that includes the shapes that break naive code
//! (multi-byte at boundaries, NUL, control chars, astral plane, combining marks, long runs).

use proptest::prelude::*;

pub fn any_char_mix() -> BoxedStrategy<char> {
    prop_oneof![
        6 => proptest::char::range('a', 'z'),
        2 => proptest::char::range(' ', '~'),
        1 => Just('\n'),
        1 => Just('\r'),
        1 => Just('\t'),
        1 => Just('\u{0}'),
        1 => Just('"'),
        1 => Just('\\'),
        2 => proptest::char::range('\u{a0}', '\u{7ff}'),   // 2-byte
        2 => proptest::char::range('\u{800}', '\u{d7ff}'), // 3-byte
        1 => proptest::char::range('\u{e000}', '\u{fffd}'),
        2 => proptest::char::range('\u{10000}', '\u{10ffff}'), // 4-byte
        1 => Just('\u{301}'),  // combining
        1 => Just('\u{200d}'), // ZWJ
        1 => Just('\u{feff}'),
        1 => Just('\u{2028}'),
    ]
    .boxed()
}

/// Short-to-medium text.
pub fn text(max: usize) -> BoxedStrategy<String> {
    proptest::collection::vec(any_char_mix(), 0..=max)
        .prop_map(|v| v.into_iter().collect())
        .boxed()
}

/// Text built from repeated blocks so that lengths around `around` bytes are hit with
/// multi-byte characters straddling the boundary.
pub fn text_around(around: usize, slack: usize) -> BoxedStrategy<String> {
    (
        prop_oneof![Just("a"), Just("é"), Just("€"), Just("😀"), Just("x\u{301}")],
        0..=(2 * slack),
        text(6),
    )
        .prop_map(move |(unit, delta, tail)| {
            let target = around.saturating_sub(slack) + delta;
            let mut s = String::new();
            while s.len() + unit.len() <= target {
                s.push_str(unit);
            }
            s.push_str(&tail);
            s
        })
        .boxed()
}

pub fn ident() -> BoxedStrategy<String> {
    "[a-z][a-z0-9_-]{0,11}".prop_map(|s| s).boxed()
}

pub fn uuid_like() -> BoxedStrategy<String> {
    any::<u128>()
        .prop_map(|v| uuid::Uuid::from_u128(v).to_string())
        .boxed()
}

/// An id: mostly drawn from a tiny pool (so that frames refer to each other), sometimes fresh.
pub fn pooled_id(prefix: &'static str, pool: usize) -> BoxedStrategy<String> {
    prop_oneof![
        6 => (0..pool).prop_map(move |i| format!("{prefix}{i}")),
        1 => uuid_like(),
        1 => text(8),
    ]
    .boxed()
}

pub fn lower_hex_64() -> BoxedStrategy<String> {
    proptest::collection::vec(any::<u8>(), 32)
        .prop_map(|b| b.iter().map(|x| format!("{x:02x}")).collect())
        .boxed()
}
