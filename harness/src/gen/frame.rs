//! G-frame: every frame type, built field by field as the *expected wire object*.
//!
//! The table below is written from docs/03_contracts/event_frames.md and the field lists of the
//! frame enum; it is independent of the derive output, so a dropped / renamed / mis-defaulted
//! field in the code shows up as a difference from this expectation.
//!
//! Canonical wire conventions used by the generator (what the system itself emits):
//!   * `OptSkip`  : optional field omitted when absent (never emitted as null)
//!   * `OptNull`  : optional field always present, `null` when absent
//!   * `VecSkip`  : list omitted when empty

use proptest::prelude::*;
use serde_json::{Map, Value};

use super::json::{value as json_value, JsonOpts};
use super::text::{lower_hex_64, pooled_id, text, text_around};

#[derive(Clone, Debug)]
pub enum F {
    /// free text
    S,
    /// short free text (labels, reasons)
    Short,
    /// chunk of output text: sometimes long, multi-byte around preview boundaries
    Chunk,
    /// id drawn from a small pool with the given prefix
    Id(&'static str),
    /// artifact id (64 lower hex) or garbage
    Artifact,
    U64,
    U32,
    U16,
    I32,
    Bool,
    /// any JSON value including null
    J,
    /// any JSON value except null
    JNonNull,
    /// JSON that may contain artifact-id-looking strings (for `artifacts` fields)
    JArtifacts,
    E(&'static [&'static str]),
    VecS,
    Vec(Box<F>),
    VecSkip(Box<F>),
    OptNull(Box<F>),
    OptSkip(Box<F>),
    Obj(Vec<(&'static str, F)>),
}

fn b(f: F) -> Box<F> {
    Box::new(f)
}

#[derive(Clone, Copy, Debug, PartialEq, Eq)]
pub enum Stream {
    Session,
    Task,
    Continuity,
}

impl Stream {
    pub fn wire(self) -> &'static str {
        match self {
            Stream::Session => "session",
            Stream::Task => "task",
            Stream::Continuity => "continuity",
        }
    }
}

pub struct KindSpec {
    pub tag: &'static str,
    pub stream: Stream,
    pub fields: Vec<(&'static str, F)>,
}

fn checkpoint_obj() -> F {
    F::Obj(vec![
        ("checkpoint_id", F::Id("cp")),
        ("summary_kind", F::Short),
        ("summary_artifact_id", F::Artifact),
        ("to_seq", F::U64),
    ])
}

pub fn kinds() -> Vec<KindSpec> {
    use Stream::*;
    use F::*;
    let actor = || ("actor_id", Short);
    let origin = || ("origin", Short);
    vec![
        KindSpec { tag: "session_started", stream: Session, fields: vec![("input", S)] },
        KindSpec { tag: "output_text_delta", stream: Session, fields: vec![("delta", Chunk)] },
        KindSpec { tag: "session_ended", stream: Session, fields: vec![("reason", Short)] },
        KindSpec { tag: "continuity_created", stream: Continuity, fields: vec![("workspace", S), ("title", OptNull(b(S)))] },
        KindSpec { tag: "continuity_message_appended", stream: Continuity, fields: vec![actor(), origin(), ("content", S)] },
        KindSpec { tag: "continuity_run_spawned", stream: Continuity, fields: vec![
            ("run_session_id", Id("s")), ("message_id", Id("m")),
            ("actor_id", OptSkip(b(Short))), ("origin", OptSkip(b(Short)))] },
        KindSpec { tag: "continuity_context_selection_decided", stream: Continuity, fields: vec![
            ("run_session_id", Id("s")), ("message_id", Id("m")), ("compiler_id", Short),
            ("compiler_strategy", Short), ("limits", J),
            ("compaction_checkpoint", OptSkip(b(checkpoint_obj()))),
            ("compaction_checkpoints", VecSkip(b(checkpoint_obj()))),
            ("resets", VecSkip(b(Obj(vec![("input", Short), ("action", Short), ("reason", Short), ("ref", OptSkip(b(JNonNull)))])))),
            ("reason", OptSkip(b(JNonNull))), actor(), origin()] },
        KindSpec { tag: "continuity_context_compiled", stream: Continuity, fields: vec![
            ("run_session_id", Id("s")), ("bundle_artifact_id", Artifact), ("compiler_id", Short),
            ("compiler_strategy", Short), ("from_seq", U64), ("from_message_id", OptSkip(b(Id("m")))),
            actor(), origin()] },
        KindSpec { tag: "continuity_provider_cursor_updated", stream: Continuity, fields: vec![
            ("provider", Short), ("endpoint", OptSkip(b(Short))), ("model", OptSkip(b(Short))),
            ("cursor", OptNull(b(JNonNull))), ("action", Short), ("reason", OptSkip(b(Short))),
            ("run_session_id", OptSkip(b(Id("s")))), actor(), origin()] },
        KindSpec { tag: "continuity_compaction_checkpoint_created", stream: Continuity, fields: vec![
            ("checkpoint_id", Id("cp")), ("cut_rule_id", Short), ("summary_kind", Short),
            ("summary_artifact_id", Artifact), ("from_seq", U64), ("from_message_id", OptSkip(b(Id("m")))),
            ("to_seq", U64), ("to_message_id", OptSkip(b(Id("m")))), actor(), origin()] },
        KindSpec { tag: "continuity_compaction_auto_schedule_decided", stream: Continuity, fields: vec![
            ("decision_id", Id("d")), ("policy_id", Short), ("decision", Short), ("execute", Bool),
            ("stride_messages", U64), ("max_new_checkpoints", U32), ("block_on_inflight", Bool),
            ("message_count", U64), ("cut_rule_id", Short),
            ("planned", Vec(b(Obj(vec![("target_message_ordinal", U64), ("to_seq", U64), ("to_message_id", Id("m"))])))),
            ("job_id", OptSkip(b(Id("j")))), ("job_kind", OptSkip(b(Short))), ("reason", OptSkip(b(JNonNull))),
            actor(), origin()] },
        KindSpec { tag: "continuity_job_spawned", stream: Continuity, fields: vec![
            ("job_id", Id("j")), ("job_kind", Short), ("details", OptSkip(b(JNonNull))), actor(), origin()] },
        KindSpec { tag: "continuity_job_ended", stream: Continuity, fields: vec![
            ("job_id", Id("j")), ("job_kind", Short), ("status", Short), ("result", OptSkip(b(JNonNull))),
            ("error", OptSkip(b(S))), actor(), origin()] },
        KindSpec { tag: "continuity_run_ended", stream: Continuity, fields: vec![
            ("run_session_id", Id("s")), ("message_id", Id("m")), ("reason", Short),
            ("actor_id", OptSkip(b(Short))), ("origin", OptSkip(b(Short)))] },
        KindSpec { tag: "continuity_tool_side_effects", stream: Continuity, fields: vec![
            ("run_session_id", Id("s")), ("tool_id", Id("t")), ("tool_name", Short),
            ("affected_paths", OptNull(b(VecS))), ("checkpoint_id", OptNull(b(Id("cp")))), actor(), origin()] },
        KindSpec { tag: "continuity_branched", stream: Continuity, fields: vec![
            ("parent_thread_id", Id("c")), ("parent_seq", U64), ("parent_message_id", OptSkip(b(Id("m")))),
            actor(), origin()] },
        KindSpec { tag: "continuity_handoff_created", stream: Continuity, fields: vec![
            ("from_thread_id", Id("c")), ("from_seq", U64), ("from_message_id", OptSkip(b(Id("m")))),
            ("summary_artifact_id", OptSkip(b(Artifact))), ("summary_markdown", OptSkip(b(S))),
            actor(), origin()] },
        KindSpec { tag: "tool_started", stream: Session, fields: vec![
            ("tool_id", Id("t")), ("name", Short), ("args", J), ("timeout_ms", OptNull(b(U64)))] },
        KindSpec { tag: "tool_stdout", stream: Session, fields: vec![("tool_id", Id("t")), ("chunk", Chunk)] },
        KindSpec { tag: "tool_stderr", stream: Session, fields: vec![("tool_id", Id("t")), ("chunk", Chunk)] },
        KindSpec { tag: "tool_ended", stream: Session, fields: vec![
            ("tool_id", Id("t")), ("exit_code", I32), ("duration_ms", U64), ("artifacts", OptNull(b(JArtifacts)))] },
        KindSpec { tag: "tool_failed", stream: Session, fields: vec![("tool_id", Id("t")), ("error", S)] },
        KindSpec { tag: "openresponses_request", stream: Session, fields: vec![
            ("endpoint", Short), ("model", OptNull(b(Short))), ("request_index", U64), ("kind", Short),
            ("body_artifact_id", Artifact), ("body_bytes", U64), ("total_bytes", U64), ("truncated", Bool)] },
        KindSpec { tag: "openresponses_request_started", stream: Session, fields: vec![
            ("endpoint", Short), ("model", OptNull(b(Short))), ("request_index", U64), ("kind", Short)] },
        KindSpec { tag: "openresponses_response_headers", stream: Session, fields: vec![
            ("request_index", U64), ("status", U16), ("request_id", OptNull(b(Short))), ("content_type", OptNull(b(Short)))] },
        KindSpec { tag: "openresponses_response_first_byte", stream: Session, fields: vec![("request_index", U64)] },
        KindSpec { tag: "provider_event", stream: Session, fields: vec![
            ("provider", E(&["openresponses", "other"])), ("status", E(&["event", "done", "invalid_json"])),
            ("event_name", OptNull(b(Short))), ("data", OptNull(b(JNonNull))), ("raw", OptNull(b(S))),
            ("errors", VecS), ("response_errors", VecS)] },
        KindSpec { tag: "checkpoint_created", stream: Session, fields: vec![
            ("checkpoint_id", Id("cp")), ("label", Short), ("created_at_ms", U64), ("files", VecS),
            ("auto", Bool), ("tool_name", OptNull(b(Short)))] },
        KindSpec { tag: "checkpoint_rewound", stream: Session, fields: vec![
            ("checkpoint_id", Id("cp")), ("label", Short), ("files", VecS)] },
        KindSpec { tag: "checkpoint_failed", stream: Session, fields: vec![
            ("action", E(&["create", "rewind"])), ("error", S)] },
        KindSpec { tag: "tool_task_spawned", stream: Task, fields: vec![
            ("task_id", Id("k")), ("tool_name", Short), ("args", J), ("cwd", OptNull(b(Short))),
            ("title", OptNull(b(Short))), ("execution_mode", E(&["pipes", "pty"])),
            ("origin_session_id", OptNull(b(Id("s")))), ("artifacts", OptNull(b(JArtifacts)))] },
        KindSpec { tag: "tool_task_status", stream: Task, fields: vec![
            ("task_id", Id("k")), ("status", E(&["queued", "running", "exited", "cancelled", "failed"])),
            ("exit_code", OptNull(b(I32))), ("started_at_ms", OptNull(b(U64))), ("ended_at_ms", OptNull(b(U64))),
            ("artifacts", OptNull(b(JArtifacts))), ("error", OptNull(b(S)))] },
        KindSpec { tag: "tool_task_cancel_requested", stream: Task, fields: vec![("task_id", Id("k")), ("reason", Short)] },
        KindSpec { tag: "tool_task_cancelled", stream: Task, fields: vec![
            ("task_id", Id("k")), ("reason", Short), ("wall_time_ms", OptNull(b(U64)))] },
        KindSpec { tag: "tool_task_output_delta", stream: Task, fields: vec![
            ("task_id", Id("k")), ("stream", E(&["stdout", "stderr", "pty"])), ("chunk", Chunk),
            ("artifacts", OptNull(b(JArtifacts)))] },
        KindSpec { tag: "tool_task_stdin_written", stream: Task, fields: vec![("task_id", Id("k")), ("chunk_b64", Short)] },
        KindSpec { tag: "tool_task_resized", stream: Task, fields: vec![("task_id", Id("k")), ("rows", U16), ("cols", U16)] },
        KindSpec { tag: "tool_task_signalled", stream: Task, fields: vec![("task_id", Id("k")), ("signal", Short)] },
    ]
}

#[derive(Clone, Copy, Debug)]
pub struct FrameOpts {
    /// allow long output chunks (around preview / output caps)
    pub big_chunks: bool,
    pub json: JsonOpts,
}

impl Default for FrameOpts {
    fn default() -> Self {
        FrameOpts {
            big_chunks: false,
            json: JsonOpts::default(),
        }
    }
}

fn u64_mix() -> BoxedStrategy<u64> {
    prop_oneof![
        3 => 0u64..50,
        2 => 0u64..100_000,
        1 => any::<u64>(),
        1 => Just(u64::MAX),
        1 => Just(i64::MAX as u64 + 1),
    ]
    .boxed()
}

/// Strategy for one field: `None` = field absent on the wire.
pub fn field(f: &F, o: FrameOpts) -> BoxedStrategy<Option<Value>> {
    match f {
        F::S => text(24).prop_map(|s| Some(Value::String(s))).boxed(),
        F::Short => prop_oneof![
            4 => "[a-z_]{0,10}".prop_map(|s| Some(Value::String(s))),
            1 => text(10).prop_map(|s| Some(Value::String(s))),
        ]
        .boxed(),
        F::Chunk => {
            if o.big_chunks {
                prop_oneof![
                    10 => text(40).prop_map(|s| Some(Value::String(s))),
                    1 => text_around(4096, 5).prop_map(|s| Some(Value::String(s))),
                    1 => text_around(8192, 5).prop_map(|s| Some(Value::String(s))),
                ]
                .boxed()
            } else {
                text(40).prop_map(|s| Some(Value::String(s))).boxed()
            }
        }
        F::Id(p) => pooled_id(p, 3).prop_map(|s| Some(Value::String(s))).boxed(),
        F::Artifact => prop_oneof![
            3 => (0u8..3).prop_map(|i| Some(Value::String(format!("{:064x}", i as u128 + 0xabc)))),
            1 => lower_hex_64().prop_map(|s| Some(Value::String(s))),
            1 => text(8).prop_map(|s| Some(Value::String(s))),
        ]
        .boxed(),
        F::U64 => u64_mix().prop_map(|v| Some(Value::from(v))).boxed(),
        F::U32 => prop_oneof![0u32..40, any::<u32>(), Just(u32::MAX)]
            .prop_map(|v| Some(Value::from(v)))
            .boxed(),
        F::U16 => prop_oneof![0u16..600, any::<u16>()]
            .prop_map(|v| Some(Value::from(v)))
            .boxed(),
        F::I32 => prop_oneof![-3i32..4, any::<i32>(), Just(i32::MIN), Just(i32::MAX)]
            .prop_map(|v| Some(Value::from(v)))
            .boxed(),
        F::Bool => any::<bool>().prop_map(|v| Some(Value::Bool(v))).boxed(),
        F::J => json_value(o.json).prop_map(Some).boxed(),
        F::JNonNull => json_value(o.json)
            .prop_map(|v| if v.is_null() { Some(Value::Bool(false)) } else { Some(v) })
            .boxed(),
        F::JArtifacts => prop_oneof![
            2 => json_value(o.json).prop_map(|v| if v.is_null() { Value::Bool(true) } else { v }),
            2 => proptest::collection::vec((text(5), lower_hex_64()), 0..3).prop_map(|kv| {
                let mut m = Map::new();
                for (k, v) in kv {
                    m.insert(k, Value::String(v));
                }
                Value::Object(m)
            }),
        ]
        .prop_map(Some)
        .boxed(),
        F::E(opts) => {
            let opts: &'static [&'static str] = opts;
            (0..opts.len())
                .prop_map(move |i| Some(Value::String(opts[i].to_string())))
                .boxed()
        }
        F::VecS => proptest::collection::vec(text(10), 0..4)
            .prop_map(|v| Some(Value::Array(v.into_iter().map(Value::String).collect())))
            .boxed(),
        F::Vec(inner) => proptest::collection::vec(field(inner, o), 0..3)
            .prop_map(|v| Some(Value::Array(v.into_iter().flatten().collect())))
            .boxed(),
        F::VecSkip(inner) => proptest::collection::vec(field(inner, o), 0..3)
            .prop_map(|v| {
                let items: Vec<Value> = v.into_iter().flatten().collect();
                if items.is_empty() {
                    None
                } else {
                    Some(Value::Array(items))
                }
            })
            .boxed(),
        F::OptNull(inner) => prop_oneof![
            1 => Just(Some(Value::Null)),
            2 => field(inner, o),
        ]
        .boxed(),
        F::OptSkip(inner) => prop_oneof![
            1 => Just(None),
            2 => field(inner, o),
        ]
        .boxed(),
        F::Obj(fields) => obj(fields, o).prop_map(|m| Some(Value::Object(m))).boxed(),
    }
}

fn obj(fields: &[(&'static str, F)], o: FrameOpts) -> BoxedStrategy<Map<String, Value>> {
    let names: Vec<&'static str> = fields.iter().map(|(n, _)| *n).collect();
    let strategies: Vec<BoxedStrategy<Option<Value>>> =
        fields.iter().map(|(_, f)| field(f, o)).collect();
    strategies
        .prop_map(move |vals| {
            let mut m = Map::new();
            for (n, v) in names.iter().zip(vals) {
                if let Some(v) = v {
                    m.insert(n.to_string(), v);
                }
            }
            m
        })
        .boxed()
}

/// A full wire frame for the given kind index; `seq`, `timestamp_ms`, stream id are generated
/// here and may be rewritten by sequence-level generators.
pub fn wire_frame_of(kind: &KindSpec, o: FrameOpts) -> BoxedStrategy<Value> {
    let tag = kind.tag;
    let stream = kind.stream;
    let sid_prefix = match stream {
        Stream::Session => "s",
        Stream::Task => "k",
        Stream::Continuity => "c",
    };
    (
        pooled_id("e", 1000),
        pooled_id(sid_prefix, 3),
        u64_mix(),
        u64_mix(),
        obj(&kind.fields, o),
    )
        .prop_map(move |(id, sid, ts, seq, fields)| {
            let mut m = Map::new();
            m.insert("id".into(), Value::String(id));
            m.insert("session_id".into(), Value::String(sid.clone()));
            m.insert("stream_kind".into(), Value::String(stream.wire().into()));
            m.insert("stream_id".into(), Value::String(sid));
            m.insert("timestamp_ms".into(), Value::from(ts));
            m.insert("seq".into(), Value::from(seq));
            m.insert("type".into(), Value::String(tag.into()));
            for (k, v) in fields {
                m.insert(k, v);
            }
            Value::Object(m)
        })
        .boxed()
}

/// Any frame of any type.
pub fn wire_frame(o: FrameOpts) -> BoxedStrategy<Value> {
    let specs = kinds();
    let strategies: Vec<BoxedStrategy<Value>> =
        specs.iter().map(|k| wire_frame_of(k, o)).collect();
    proptest::strategy::Union::new(strategies).boxed()
}

/// Task-stream frames for a task id carry that id as stream id in the real system; the TUI
/// folds by the `task_id` field. Nothing to adjust here: ids are pooled so they collide.
pub fn tags() -> Vec<&'static str> {
    kinds().iter().map(|k| k.tag).collect()
}

pub fn parse(wire: &Value) -> Result<rip_kernel::Event, String> {
    serde_json::from_value::<rip_kernel::Event>(wire.clone()).map_err(|e| e.to_string())
}
