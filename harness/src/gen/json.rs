//! Arbitrary serde_json::Value (G-json).

use proptest::prelude::*;
use serde_json::{Map, Number, Value};

use super::text::text;

#[derive(Clone, Copy, Debug)]
pub struct JsonOpts {
    pub depth: u32,
    pub floats: bool,
    pub max_len: usize,
}

impl Default for JsonOpts {
    fn default() -> Self {
        JsonOpts {
            depth: 3,
            floats: false,
            max_len: 4,
        }
    }
}

pub fn scalar(floats: bool) -> BoxedStrategy<Value> {
    let ints = prop_oneof![
        Just(0i64),
        Just(-1i64),
        Just(i64::MIN),
        Just(i64::MAX),
        any::<i64>(),
        -1000i64..1000,
    ]
    .prop_map(|i| Value::Number(Number::from(i)));
    let uints = prop_oneof![Just(u64::MAX), any::<u64>()].prop_map(|u| Value::Number(Number::from(u)));
    let base = prop_oneof![
        1 => Just(Value::Null),
        1 => any::<bool>().prop_map(Value::Bool),
        3 => ints,
        1 => uints,
        4 => text(12).prop_map(Value::String),
    ];
    if floats {
        prop_oneof![
            6 => base,
            1 => any::<f64>()
                .prop_filter_map("finite", |f| Number::from_f64(f).map(Value::Number)),
        ]
        .boxed()
    } else {
        base.boxed()
    }
}

pub fn value(opts: JsonOpts) -> BoxedStrategy<Value> {
    let leaf = scalar(opts.floats);
    let max_len = opts.max_len;
    leaf.prop_recursive(opts.depth, 24, max_len as u32, move |inner| {
        prop_oneof![
            proptest::collection::vec(inner.clone(), 0..=max_len).prop_map(Value::Array),
            proptest::collection::vec((text(6), inner), 0..=max_len).prop_map(|kv| {
                let mut m = Map::new();
                for (k, v) in kv {
                    m.insert(k, v);
                }
                Value::Object(m)
            }),
        ]
    })
    .boxed()
}

/// A value nested exactly `depth` deep (alternating arrays/objects), for recursion-limit classes.
pub fn deep(depth: usize, object: bool) -> Value {
    let mut v = Value::String("leaf".into());
    for i in 0..depth {
        v = if object || i % 2 == 0 {
            let mut m = Map::new();
            m.insert("k".into(), v);
            Value::Object(m)
        } else {
            Value::Array(vec![v])
        };
    }
    v
}

pub fn depth_of(v: &Value) -> usize {
    match v {
        Value::Array(a) => 1 + a.iter().map(depth_of).max().unwrap_or(0),
        Value::Object(m) => 1 + m.values().map(depth_of).max().unwrap_or(0),
        _ => 0,
    }
}
