//! E5 scripted provider: a loopback HTTP/1.1 server that plays a generated script — one
//! `Reply` per incoming request, in order — and records every request it receives (headers and
//! body). Chunk boundaries of a reply are honoured with HTTP chunked encoding and a flush (plus a
//! short pause) per chunk, so the client usually observes the same partition; oracles must not
//! depend on that (TCP may coalesce).

use std::sync::{Arc, Mutex};
use std::time::Duration;

use serde::{Deserialize, Serialize};
use serde_json::Value;
use tokio::io::{AsyncReadExt, AsyncWriteExt};
use tokio::net::TcpListener;

#[derive(Debug, Clone, Serialize, Deserialize, PartialEq)]
pub struct Reply {
    pub status: u16,
    /// body, already partitioned into chunks
    pub chunks: Vec<Vec<u8>>,
    /// extra response headers
    #[serde(default)]
    pub headers: Vec<(String, String)>,
    /// close the connection abruptly after this many body bytes (no terminating chunk)
    #[serde(default)]
    pub drop_after: Option<usize>,
    /// echo the request body (and optionally the request headers) into the response body
    #[serde(default)]
    pub echo_request: u8, // 0 no, 1 body, 2 body + headers
    #[serde(default)]
    pub content_type: Option<String>,
}

impl Reply {
    pub fn sse(chunks: Vec<Vec<u8>>) -> Reply {
        Reply {
            status: 200,
            chunks,
            headers: Vec::new(),
            drop_after: None,
            echo_request: 0,
            content_type: Some("text/event-stream".to_string()),
        }
    }
    pub fn error(status: u16, body: &str) -> Reply {
        Reply {
            status,
            chunks: vec![body.as_bytes().to_vec()],
            headers: Vec::new(),
            drop_after: None,
            echo_request: 0,
            content_type: Some("application/json".to_string()),
        }
    }
}

#[derive(Debug, Clone)]
pub struct Recorded {
    pub method: String,
    pub path: String,
    pub headers: Vec<(String, String)>,
    pub body: Vec<u8>,
}

impl Recorded {
    pub fn json(&self) -> Value {
        serde_json::from_slice(&self.body).unwrap_or(Value::Null)
    }
    pub fn header(&self, name: &str) -> Option<&str> {
        self.headers
            .iter()
            .find(|(k, _)| k.eq_ignore_ascii_case(name))
            .map(|(_, v)| v.as_str())
    }
}

pub struct Provider {
    pub addr: std::net::SocketAddr,
    pub requests: Arc<Mutex<Vec<Recorded>>>,
    handle: tokio::task::JoinHandle<()>,
}

impl Provider {
    pub fn endpoint(&self) -> String {
        format!("http://{}/v1/responses", self.addr)
    }

    pub fn recorded(&self) -> Vec<Recorded> {
        self.requests.lock().unwrap().clone()
    }

    /// Start serving `script`; requests beyond the script get `fallback`.
    pub async fn start(script: Vec<Reply>, fallback: Reply) -> Provider {
        let listener = TcpListener::bind("127.0.0.1:0").await.expect("bind provider");
        let addr = listener.local_addr().expect("addr");
        let requests: Arc<Mutex<Vec<Recorded>>> = Arc::new(Mutex::new(Vec::new()));
        let reqs = requests.clone();
        let script = Arc::new(script);
        let handle = tokio::spawn(async move {
            loop {
                let Ok((mut sock, _)) = listener.accept().await else {
                    break;
                };
                let reqs = reqs.clone();
                let script = script.clone();
                let fallback = fallback.clone();
                tokio::spawn(async move {
                    let Some(rec) = read_request(&mut sock).await else {
                        return;
                    };
                    let idx = {
                        let mut g = reqs.lock().unwrap();
                        g.push(rec.clone());
                        g.len() - 1
                    };
                    let reply = script.get(idx).cloned().unwrap_or(fallback);
                    write_reply(&mut sock, &reply, &rec).await;
                });
            }
        });
        Provider {
            addr,
            requests,
            handle,
        }
    }
}

impl Drop for Provider {
    fn drop(&mut self) {
        self.handle.abort();
    }
}

async fn read_request(sock: &mut tokio::net::TcpStream) -> Option<Recorded> {
    let mut buf: Vec<u8> = Vec::new();
    let mut tmp = [0u8; 8192];
    let header_end;
    loop {
        let n = tokio::time::timeout(Duration::from_secs(10), sock.read(&mut tmp))
            .await
            .ok()?
            .ok()?;
        if n == 0 {
            return None;
        }
        buf.extend_from_slice(&tmp[..n]);
        if let Some(pos) = find(&buf, b"\r\n\r\n") {
            header_end = pos + 4;
            break;
        }
        if buf.len() > 1 << 20 {
            return None;
        }
    }
    let head = String::from_utf8_lossy(&buf[..header_end]).to_string();
    let mut lines = head.split("\r\n");
    let request_line = lines.next().unwrap_or("");
    let mut parts = request_line.split(' ');
    let method = parts.next().unwrap_or("").to_string();
    let path = parts.next().unwrap_or("").to_string();
    let mut headers = Vec::new();
    let mut content_length = 0usize;
    for l in lines {
        if let Some((k, v)) = l.split_once(':') {
            let k = k.trim().to_string();
            let v = v.trim().to_string();
            if k.eq_ignore_ascii_case("content-length") {
                content_length = v.parse().unwrap_or(0);
            }
            headers.push((k, v));
        }
    }
    let mut body = buf[header_end..].to_vec();
    while body.len() < content_length {
        let n = tokio::time::timeout(Duration::from_secs(10), sock.read(&mut tmp))
            .await
            .ok()?
            .ok()?;
        if n == 0 {
            break;
        }
        body.extend_from_slice(&tmp[..n]);
    }
    Some(Recorded {
        method,
        path,
        headers,
        body,
    })
}

fn find(hay: &[u8], needle: &[u8]) -> Option<usize> {
    hay.windows(needle.len()).position(|w| w == needle)
}

async fn write_reply(sock: &mut tokio::net::TcpStream, reply: &Reply, req: &Recorded) {
    let reason = match reply.status {
        200 => "OK",
        400 => "Bad Request",
        401 => "Unauthorized",
        404 => "Not Found",
        429 => "Too Many Requests",
        500 => "Internal Server Error",
        503 => "Service Unavailable",
        _ => "Status",
    };
    let mut head = format!("HTTP/1.1 {} {}\r\n", reply.status, reason);
    if let Some(ct) = &reply.content_type {
        head.push_str(&format!("content-type: {ct}\r\n"));
    }
    for (k, v) in &reply.headers {
        head.push_str(&format!("{k}: {v}\r\n"));
    }
    head.push_str("transfer-encoding: chunked\r\nconnection: close\r\n\r\n");
    if sock.write_all(head.as_bytes()).await.is_err() {
        return;
    }
    let _ = sock.flush().await;
    let mut chunks = reply.chunks.clone();
    if reply.echo_request >= 1 {
        chunks.push(req.body.clone());
    }
    if reply.echo_request >= 2 {
        let mut h = String::new();
        for (k, v) in &req.headers {
            h.push_str(&format!("{k}: {v}\n"));
        }
        chunks.push(h.into_bytes());
    }
    let mut sent = 0usize;
    for chunk in &chunks {
        if chunk.is_empty() {
            continue;
        }
        let mut data: &[u8] = chunk;
        let mut stop = false;
        if let Some(limit) = reply.drop_after {
            if sent + data.len() >= limit {
                data = &data[..limit.saturating_sub(sent)];
                stop = true;
            }
        }
        if !data.is_empty() {
            let frame_head = format!("{:x}\r\n", data.len());
            if sock.write_all(frame_head.as_bytes()).await.is_err() {
                return;
            }
            if sock.write_all(data).await.is_err() {
                return;
            }
            if sock.write_all(b"\r\n").await.is_err() {
                return;
            }
            let _ = sock.flush().await;
            sent += data.len();
        }
        if stop {
            // abrupt close: no terminating chunk
            let _ = sock.shutdown().await;
            return;
        }
        tokio::time::sleep(Duration::from_millis(1)).await;
    }
    if reply.drop_after.is_some() && reply.drop_after.unwrap() <= sent && reply.drop_after.unwrap() == 0 {
        let _ = sock.shutdown().await;
        return;
    }
    let _ = sock.write_all(b"0\r\n\r\n").await;
    let _ = sock.flush().await;
    let _ = sock.shutdown().await;
}

// ---------------------------------------------------------------------------------------------
// SSE script rendering helpers (Open Responses event shapes)
// ---------------------------------------------------------------------------------------------

pub fn sse_event(name: Option<&str>, data: &str) -> String {
    let mut s = String::new();
    if let Some(n) = name {
        s.push_str(&format!("event: {n}\n"));
    }
    for line in data.split('\n') {
        s.push_str(&format!("data: {line}\n"));
    }
    s.push('\n');
    s
}

pub fn sse_json(v: &Value) -> String {
    let name = v.get("type").and_then(|t| t.as_str()).map(|s| s.to_string());
    sse_event(name.as_deref(), &v.to_string())
}

pub fn sse_done() -> String {
    "data: [DONE]\n\n".to_string()
}

/// Split `body` at the given cut positions (monotone mapping of u16 choices).
pub fn partition(body: &[u8], cuts: &[u16]) -> Vec<Vec<u8>> {
    let mut pos: Vec<usize> = cuts
        .iter()
        .map(|c| crate::engine::pick(*c, body.len() + 1))
        .collect();
    pos.sort_unstable();
    pos.dedup();
    let mut out = Vec::new();
    let mut last = 0;
    for p in pos {
        if p > last && p < body.len() {
            out.push(body[last..p].to_vec());
            last = p;
        }
    }
    out.push(body[last..].to_vec());
    out
}
