//! Shared by C13 / C14: sandbox tree with sentinel canaries around a workspace root, per-thread
//! process working directory, the checkpoint hook, tool runners, snapshots and event decoding.
//!
//! Working directory. The process cwd is process-global, but on Linux a thread can detach its
//! filesystem attributes with `unshare(CLONE_FS)`; after that `chdir` only affects that thread
//! and the threads it spawns later (pthread_create passes CLONE_FS, so children share the
//! *creator's* fs_struct — which is how tokio's blocking-pool threads and child processes
//! started from a shard thread see that shard's cwd). Every thread that runs cases calls
//! `cwd::enter` first; if `unshare` is not available the checks fall back to one shard
//! (`cwd::threads()` returns 1) and the very same calls change the process-wide cwd, which is
//! then race-free because only one case runs at a time.

use std::collections::BTreeSet;
use std::path::{Path, PathBuf};
use std::sync::Arc;

use rip_kernel::{CheckpointAction, Event, EventKind};
use rip_tools::{
    register_builtin_tools, BuiltinToolConfig, CheckpointHook, CheckpointRecord,
    CheckpointRequest, CheckpointRewindRecord, ToolInvocation, ToolRegistry, ToolRunner,
};
use rip_workspace::Workspace;
use serde_json::Value;

use crate::engine::scratch::{self, Scratch};
use crate::tree::{Node, Snapshot};

// ------------------------------------------------------------------------------------------
// working directory
// ------------------------------------------------------------------------------------------

pub mod cwd {
    use std::cell::Cell;
    use std::path::{Path, PathBuf};
    use std::sync::OnceLock;

    static NEUTRAL: OnceLock<PathBuf> = OnceLock::new();
    static PER_THREAD: OnceLock<bool> = OnceLock::new();

    thread_local! {
        static DETACHED: Cell<bool> = const { Cell::new(false) };
    }

    /// Does `unshare(CLONE_FS)` work here? Probed once, in a throw-away thread.
    pub fn per_thread_supported() -> bool {
        *PER_THREAD.get_or_init(|| {
            if std::env::var("VERIF_CWD_MODE").ok().as_deref() == Some("serial") {
                return false;
            }
            std::thread::spawn(|| unsafe { libc::unshare(libc::CLONE_FS) == 0 })
                .join()
                .unwrap_or(false)
        })
    }

    /// Shard count for groups whose cases set the working directory.
    pub fn threads() -> usize {
        if per_thread_supported() {
            crate::engine::runner::default_threads()
        } else {
            1
        }
    }

    /// Move the whole process into an empty scratch directory (so that no case ever resolves a
    /// relative path against /verif). Call once from main before the first group.
    pub fn init_neutral() -> &'static Path {
        NEUTRAL.get_or_init(|| {
            let dir = crate::engine::scratch::root().join("neutral-cwd");
            std::fs::create_dir_all(&dir).expect("neutral cwd");
            std::env::set_current_dir(&dir).expect("chdir neutral");
            dir
        })
    }

    /// Detach this thread's cwd from the rest of the process (idempotent, no-op in serial mode).
    pub fn detach_thread() {
        DETACHED.with(|d| {
            if !d.get() {
                if per_thread_supported() {
                    let rc = unsafe { libc::unshare(libc::CLONE_FS) };
                    assert!(rc == 0, "unshare(CLONE_FS) failed after a successful probe");
                }
                d.set(true);
            }
        });
    }

    pub struct Guard(());

    /// chdir for the duration of a case; restores the neutral directory on drop.
    pub fn enter(dir: &Path) -> Guard {
        init_neutral();
        detach_thread();
        std::env::set_current_dir(dir).expect("chdir into sandbox");
        Guard(())
    }

    impl Drop for Guard {
        fn drop(&mut self) {
            let _ = std::env::set_current_dir(init_neutral());
        }
    }
}

// ------------------------------------------------------------------------------------------
// tokio: one current-thread runtime per case thread (created after the thread detached its cwd)
// ------------------------------------------------------------------------------------------

thread_local! {
    static RT: tokio::runtime::Runtime = tokio::runtime::Builder::new_current_thread()
        .enable_all()
        .build()
        .expect("tokio runtime");
}

pub fn block_on<F: std::future::Future>(f: F) -> F::Output {
    cwd::detach_thread();
    RT.with(|rt| rt.block_on(f))
}

// ------------------------------------------------------------------------------------------
// snapshots (own walker: keys are the exact UTF-8 names, no separator rewriting)
// ------------------------------------------------------------------------------------------

/// Snapshot everything under `root`; `skip` = relative path prefixes left out.
pub fn snap(root: &Path, skip: &[&str]) -> Snapshot {
    let mut out = Snapshot::new();
    walk(root, "", skip, &mut out);
    out
}

fn walk(dir: &Path, prefix: &str, skip: &[&str], out: &mut Snapshot) {
    let rd = match std::fs::read_dir(dir) {
        Ok(rd) => rd,
        Err(_) => return,
    };
    let mut entries: Vec<_> = rd.filter_map(|e| e.ok()).collect();
    entries.sort_by_key(|e| e.file_name());
    for e in entries {
        let name = e.file_name().to_string_lossy().into_owned();
        let rel = if prefix.is_empty() {
            name.clone()
        } else {
            format!("{prefix}/{name}")
        };
        if skip.iter().any(|s| rel == *s) {
            continue;
        }
        let path = e.path();
        let meta = match std::fs::symlink_metadata(&path) {
            Ok(m) => m,
            Err(_) => continue,
        };
        if meta.file_type().is_symlink() {
            out.insert(rel, Node::Symlink(std::fs::read_link(&path).unwrap_or_default()));
        } else if meta.is_dir() {
            out.insert(rel.clone(), Node::Dir);
            walk(&path, &rel, skip, out);
        } else if meta.is_file() {
            out.insert(rel, Node::File(std::fs::read(&path).unwrap_or_default()));
        } else {
            out.insert(rel, Node::Other);
        }
    }
}

/// Files-only view (directories ignored).
pub fn files_of(s: &Snapshot) -> std::collections::BTreeMap<String, Vec<u8>> {
    crate::tree::files(s)
}

/// Keys whose file content differs between two snapshots (files only; a path that is a file on
/// one side and a directory / absent on the other counts).
pub fn changed_files(a: &Snapshot, b: &Snapshot) -> BTreeSet<String> {
    let fa = files_of(a);
    let fb = files_of(b);
    let mut out = BTreeSet::new();
    for (k, v) in &fa {
        if fb.get(k) != Some(v) {
            out.insert(k.clone());
        }
    }
    for k in fb.keys() {
        if !fa.contains_key(k) {
            out.insert(k.clone());
        }
    }
    out
}

// ------------------------------------------------------------------------------------------
// sandbox
// ------------------------------------------------------------------------------------------

/// Sentinel files outside the workspace root: (path relative to the scratch base, canary).
/// Every sentinel file's content is `<canary>\nalpha\nbeta\n` so that a patch hunk or a grep that
/// works on the workspace's `a.txt` would work on an escaped sentinel just as well.
pub const SENTINELS: &[(&str, &str)] = &[
    ("outer/SENT_top.txt", "CANARY_TOP_4f1c"),
    ("outer/a.txt", "CANARY_OUTER_A_91d2"),
    ("outer/new.txt", "CANARY_OUTER_NEW_0b7e"),
    ("outer/ws.tmp", "CANARY_WSTMP_77aa"),
    ("outer/ws-evil/secret.txt", "CANARY_EVIL_c0de"),
    ("outer/ws-evil/a.txt", "CANARY_EVIL_A_5d5d"),
    ("outer/sibling/data.txt", "CANARY_SIB_1b2e"),
    ("outer/sibling/sub/c.txt", "CANARY_SIBSUB_83f0"),
    ("outer/sub/c.txt", "CANARY_OUTER_SUBC_6a6a"),
    ("outer/cpstore/files/a.txt", "CANARY_CPSTORE_e1e1"),
    ("elsewhere/a.txt", "CANARY_ELSE_A_2c4d"),
    ("elsewhere/b.txt", "CANARY_ELSE_B_9f9f"),
    ("elsewhere/new.txt", "CANARY_ELSE_NEW_7b3a"),
    ("elsewhere/sub/c.txt", "CANARY_ELSE_SUBC_d00d"),
    ("elsewhere/sub/new2.txt", "CANARY_ELSE_NEW2_4e4e"),
];

/// Files whose *name* is a canary (never referenced by any generated path): a directory listing
/// taken outside the root leaks them.
pub const NAME_CANARIES: &[(&str, &str)] = &[
    ("outer/NAMECANARY_a1f3.txt", "NAMECANARY_a1f3"),
    ("outer/ws-evil/NAMECANARY_e5f1.txt", "NAMECANARY_e5f1"),
    ("outer/sibling/NAMECANARY_c7c7.txt", "NAMECANARY_c7c7"),
    ("elsewhere/NAMECANARY_9a9a.txt", "NAMECANARY_9a9a"),
];

pub fn sentinel_body(canary: &str) -> String {
    format!("{canary}\nalpha\nbeta\n")
}

#[derive(Debug, Clone, Copy, PartialEq, Eq)]
pub enum CwdClass {
    Root,
    Outer,
    Elsewhere,
}

impl CwdClass {
    pub fn parse(s: &str) -> CwdClass {
        match s {
            "outer" => CwdClass::Outer,
            "elsewhere" => CwdClass::Elsewhere,
            _ => CwdClass::Root,
        }
    }
    pub fn as_str(self) -> &'static str {
        match self {
            CwdClass::Root => "root",
            CwdClass::Outer => "outer",
            CwdClass::Elsewhere => "elsewhere",
        }
    }
}

pub struct Sandbox {
    _scratch: Scratch,
    /// the case's scratch directory (`base` = `top/x/y/z`)
    pub top: PathBuf,
    pub base: PathBuf,
    pub outer: PathBuf,
    pub root: PathBuf,
    pub elsewhere: PathBuf,
}

impl Sandbox {
    /// `base/outer/{.git/, sentinels…, ws/<files>}` and `base/elsewhere/…`.
    pub fn new(tag: &str, ws_files: &[(String, Vec<u8>)]) -> Sandbox {
        let scratch = Scratch::new(tag);
        // three spare levels above the sandbox: a path that climbs out of `outer/` with a few
        // `..` still lands inside this case's scratch directory, where `outside()` sees it (and
        // where it is removed with the case)
        let base = scratch.path().join("x").join("y").join("z");
        let sb = Sandbox {
            top: scratch.path().to_path_buf(),
            _scratch: scratch,
            outer: base.join("outer"),
            root: base.join("outer").join("ws"),
            elsewhere: base.join("elsewhere"),
            base,
        };
        sb.populate(ws_files);
        sb
    }

    /// Wipe and rebuild the whole tree at the same location (used where an engine bound to this
    /// root is kept across cases).
    pub fn repopulate(&self, ws_files: &[(String, Vec<u8>)]) {
        // everything below the scratch directory goes, including strays beside the sandbox
        if let Ok(rd) = std::fs::read_dir(&self.top) {
            for e in rd.flatten() {
                let _ = std::fs::remove_dir_all(e.path()).or_else(|_| std::fs::remove_file(e.path()));
            }
        }
        self.populate(ws_files);
    }

    fn populate(&self, ws_files: &[(String, Vec<u8>)]) {
        let (base, outer, root, elsewhere) = (&self.base, &self.outer, &self.root, &self.elsewhere);
        std::fs::create_dir_all(outer.join(".git")).expect("mkdir");
        std::fs::create_dir_all(root).expect("mkdir");
        std::fs::create_dir_all(elsewhere).expect("mkdir");
        for (rel, canary) in SENTINELS {
            let p = base.join(rel);
            std::fs::create_dir_all(p.parent().unwrap()).expect("mkdir");
            std::fs::write(&p, sentinel_body(canary)).expect("sentinel");
        }
        for (rel, _) in NAME_CANARIES {
            let p = base.join(rel);
            std::fs::create_dir_all(p.parent().unwrap()).expect("mkdir");
            std::fs::write(&p, b"x\n").expect("sentinel");
        }
        // a well-formed checkpoint directory *outside* the root: a rewind id that traverses to it
        // would restore its blob (a canary) into the workspace
        let meta = serde_json::json!({
            "id": "cpstore", "session_id": "s1", "label": "outside", "created_at_ms": 1,
            "files": [{"path": "a.txt", "exists": true, "sha256": null}]
        });
        std::fs::write(
            outer.join("cpstore/checkpoint.json"),
            serde_json::to_vec_pretty(&meta).unwrap(),
        )
        .expect("cpstore");
        for (rel, bytes) in ws_files {
            let p = root.join(rel);
            if let Some(parent) = p.parent() {
                let _ = std::fs::create_dir_all(parent);
            }
            // names the file system refuses (too long, NUL…) are simply not created
            let _ = std::fs::write(&p, bytes);
        }
    }

    pub fn cwd_dir(&self, c: CwdClass) -> &Path {
        match c {
            CwdClass::Root => &self.root,
            CwdClass::Outer => &self.outer,
            CwdClass::Elsewhere => &self.elsewhere,
        }
    }

    /// Everything under the case's scratch directory except the workspace root.
    pub fn outside(&self) -> Snapshot {
        snap(&self.top, &["x/y/z/outer/ws"])
    }

    /// The workspace root including `.rip`.
    pub fn ws_all(&self) -> Snapshot {
        snap(&self.root, &[])
    }

    /// The workspace root without `.rip`.
    pub fn ws(&self) -> Snapshot {
        snap(&self.root, &[".rip"])
    }

    /// Expand the location tokens of a path template.
    pub fn subst(&self, template: &str) -> String {
        let root = self.root.to_string_lossy();
        let outer = self.outer.to_string_lossy();
        let els = self.elsewhere.to_string_lossy();
        template
            .replace("<ROOTREL>", root.trim_start_matches('/'))
            .replace("<OUTERREL>", outer.trim_start_matches('/'))
            .replace("<ROOT>", &root)
            .replace("<OUTER>", &outer)
            .replace("<ELSE>", &els)
    }
}

/// Canaries (content and name) found in a byte string.
pub fn canaries_in(hay: &[u8]) -> Vec<&'static str> {
    let mut out = Vec::new();
    for (_, c) in SENTINELS.iter().chain(NAME_CANARIES.iter()) {
        if find(hay, c.as_bytes()) {
            out.push(*c);
        }
    }
    out
}

fn find(hay: &[u8], needle: &[u8]) -> bool {
    !needle.is_empty() && hay.len() >= needle.len() && hay.windows(needle.len()).any(|w| w == needle)
}

// ------------------------------------------------------------------------------------------
// lexical path helpers (the oracle's own notion of a path; std::path is used on purpose only
// for splitting into components, which is the documented meaning of "`..` segment")
// ------------------------------------------------------------------------------------------

pub fn is_abs(p: &str) -> bool {
    p.starts_with('/')
}

pub fn has_dotdot(p: &str) -> bool {
    p.split('/').any(|seg| seg == "..")
}

/// Drop empty and `.` segments; `None` when the path is absolute or has a `..` segment.
pub fn normalize_rel(p: &str) -> Option<String> {
    if is_abs(p) || has_dotdot(p) {
        return None;
    }
    let segs: Vec<&str> = p.split('/').filter(|s| !s.is_empty() && *s != ".").collect();
    Some(segs.join("/"))
}

/// Absolute path without `..`: is it (component-wise) the root or below it? Returns the
/// normalised remainder.
pub fn abs_inside(root: &Path, p: &str) -> Option<String> {
    if !is_abs(p) || has_dotdot(p) {
        return None;
    }
    let segs: Vec<&str> = p.split('/').filter(|s| !s.is_empty() && *s != ".").collect();
    let root_s = root.to_string_lossy();
    let rsegs: Vec<&str> = root_s.split('/').filter(|s| !s.is_empty()).collect();
    if segs.len() >= rsegs.len() && segs[..rsegs.len()] == rsegs[..] {
        Some(segs[rsegs.len()..].join("/"))
    } else {
        None
    }
}

// ------------------------------------------------------------------------------------------
// checkpoint hook + runners
// ------------------------------------------------------------------------------------------

/// Line-for-line equivalent of `ripd::checkpoints::WorkspaceCheckpointHook` (private to ripd):
/// `create` = `Workspace::create_checkpoint(session, label, files)`; `rewind` = list the
/// session's checkpoints, require an entry whose id equals the argument, then
/// `Workspace::rewind_to_checkpoint`.
pub struct MirrorHook {
    workspace: Workspace,
}

impl MirrorHook {
    pub fn new(root: PathBuf) -> std::io::Result<Self> {
        Ok(Self {
            workspace: Workspace::new(root)?,
        })
    }
}

impl CheckpointHook for MirrorHook {
    fn create(&self, request: CheckpointRequest) -> Result<CheckpointRecord, String> {
        let checkpoint = self
            .workspace
            .create_checkpoint(&request.session_id, request.label, &request.files)
            .map_err(|err| format!("checkpoint create failed: {err}"))?;
        let files = checkpoint.files.iter().map(|e| e.path.clone()).collect();
        Ok(CheckpointRecord {
            id: checkpoint.id,
            label: checkpoint.label,
            created_at_ms: checkpoint.created_at_ms,
            files,
        })
    }

    fn rewind(&self, session_id: &str, checkpoint_id: &str) -> Result<CheckpointRewindRecord, String> {
        let checkpoints = self
            .workspace
            .list_checkpoints(session_id)
            .map_err(|err| format!("checkpoint list failed: {err}"))?;
        let checkpoint = checkpoints
            .into_iter()
            .find(|entry| entry.id == checkpoint_id)
            .ok_or_else(|| "checkpoint not found".to_string())?;
        self.workspace
            .rewind_to_checkpoint(session_id, checkpoint_id)
            .map_err(|err| format!("checkpoint rewind failed: {err}"))?;
        let files = checkpoint.files.iter().map(|e| e.path.clone()).collect();
        Ok(CheckpointRewindRecord {
            id: checkpoint.id,
            label: checkpoint.label,
            files,
        })
    }
}

pub const SESSION: &str = "s1";

pub struct Rig {
    /// ToolRunner with the checkpoint hook (what ripd builds in `SessionEngine::new`).
    pub hooked: ToolRunner,
    /// Same registry, no hook (used only to step around a known finding in the hook path).
    pub bare: ToolRunner,
    pub seq: u64,
}

impl Rig {
    pub fn new(root: &Path) -> Rig {
        let registry = Arc::new(ToolRegistry::default());
        // same limits as BuiltinToolConfig::default(), spelled out so that Default's
        // env::current_dir() is never consulted
        let config = BuiltinToolConfig {
            workspace_root: root.to_path_buf(),
            artifact_max_bytes: 16 * 1024 * 1024,
            max_bytes: 512 * 1024,
            max_results: 1000,
            max_depth: 64,
            follow_symlinks: false,
            include_hidden: false,
        };
        register_builtin_tools(&registry, config);
        let hook = MirrorHook::new(root.to_path_buf()).expect("workspace hook");
        Rig {
            hooked: ToolRunner::with_checkpoint_hook(registry.clone(), 4, Arc::new(hook)),
            bare: ToolRunner::new(registry, 4),
            seq: 0,
        }
    }

    pub fn tool(&mut self, hooked: bool, name: &str, args: Value) -> Vec<Event> {
        let inv = ToolInvocation {
            name: name.to_string(),
            args,
            timeout_ms: None,
        };
        let runner = if hooked { &self.hooked } else { &self.bare };
        let seq = &mut self.seq;
        block_on(runner.run(SESSION, seq, inv))
    }

    pub fn create_checkpoint(&mut self, label: &str, files: Vec<PathBuf>) -> Vec<Event> {
        self.hooked
            .create_checkpoint(SESSION, &mut self.seq, label.to_string(), files)
    }

    pub fn rewind(&mut self, id: &str) -> Vec<Event> {
        self.hooked.rewind_checkpoint(SESSION, &mut self.seq, id)
    }
}

/// What a batch of events says happened.
#[derive(Debug, Default, Clone)]
pub struct Seen {
    pub started_idx: Option<usize>,
    pub exit_code: Option<i32>,
    pub tool_failed: Option<String>,
    pub stdout: Vec<String>,
    pub stderr: Vec<String>,
    /// (event index, id, files, auto)
    pub created: Vec<(usize, String, Vec<String>, bool)>,
    pub rewound: Vec<(String, Vec<String>)>,
    pub create_failed: Vec<String>,
    pub rewind_failed: Vec<String>,
}

impl Seen {
    pub fn of(events: &[Event]) -> Seen {
        let mut s = Seen::default();
        for (i, e) in events.iter().enumerate() {
            match &e.kind {
                EventKind::ToolStarted { .. } => {
                    if s.started_idx.is_none() {
                        s.started_idx = Some(i);
                    }
                }
                EventKind::ToolStdout { chunk, .. } => s.stdout.push(chunk.clone()),
                EventKind::ToolStderr { chunk, .. } => s.stderr.push(chunk.clone()),
                EventKind::ToolEnded { exit_code, .. } => s.exit_code = Some(*exit_code),
                EventKind::ToolFailed { error, .. } => s.tool_failed = Some(error.clone()),
                EventKind::CheckpointCreated {
                    checkpoint_id,
                    files,
                    auto,
                    ..
                } => s.created.push((i, checkpoint_id.clone(), files.clone(), *auto)),
                EventKind::CheckpointRewound {
                    checkpoint_id, files, ..
                } => s.rewound.push((checkpoint_id.clone(), files.clone())),
                EventKind::CheckpointFailed { action, error } => match action {
                    CheckpointAction::Create => s.create_failed.push(error.clone()),
                    CheckpointAction::Rewind => s.rewind_failed.push(error.clone()),
                },
                _ => {}
            }
        }
        s
    }

    /// The tool reported failure (non-zero exit or tool_failed).
    pub fn tool_refused(&self) -> bool {
        self.tool_failed.is_some() || self.exit_code.map(|c| c != 0).unwrap_or(false)
    }
}

pub fn events_json(events: &[Event]) -> String {
    serde_json::to_string(events).unwrap_or_default()
}

/// Location of the checkpoint store for the fixed session.
pub fn store_dir(root: &Path) -> PathBuf {
    root.join(".rip").join("checkpoints").join(SESSION)
}

pub fn scratch_root() -> &'static Path {
    scratch::root()
}

// ------------------------------------------------------------------------------------------
// ripd session engine (the real WorkspaceCheckpointHook, driven through input envelopes)
// ------------------------------------------------------------------------------------------

/// `ripd::SessionEngine` on its own current-thread runtime. One input per rig (a session takes
/// exactly one input).
pub struct SessionRig {
    rt: tokio::runtime::Runtime,
    engine: ripd::SessionEngine,
}

impl SessionRig {
    pub fn new(root: &Path, data_dir: &Path) -> Result<SessionRig, String> {
        cwd::detach_thread();
        let rt = tokio::runtime::Builder::new_current_thread()
            .enable_all()
            .build()
            .map_err(|e| e.to_string())?;
        let engine = rt.block_on(async {
            ripd::SessionEngine::new(data_dir.to_path_buf(), root.to_path_buf(), None)
        })?;
        Ok(SessionRig { rt, engine })
    }

    /// Send one input envelope, collect the session's frames up to `session_ended`.
    /// `Err` = the session did not end within the wait (no verdict is drawn from that).
    pub fn input(&self, input: String) -> Result<Vec<Event>, String> {
        self.rt.block_on(async {
            let handle = self.engine.create_session();
            let mut rx = handle.subscribe();
            self.engine.spawn_session(handle.clone(), input, None, None);
            let mut events = Vec::new();
            let deadline = tokio::time::sleep(std::time::Duration::from_secs(120));
            tokio::pin!(deadline);
            loop {
                tokio::select! {
                    r = rx.recv() => match r {
                        Ok(ev) => {
                            let end = matches!(ev.kind, EventKind::SessionEnded { .. });
                            events.push(ev);
                            if end {
                                break;
                            }
                        }
                        Err(tokio::sync::broadcast::error::RecvError::Lagged(_)) => continue,
                        Err(tokio::sync::broadcast::error::RecvError::Closed) => break,
                    },
                    _ = &mut deadline => return Err("session did not end within the wait".to_string()),
                }
            }
            Ok(events)
        })
    }
}
