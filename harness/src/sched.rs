//! E3 schedule controller + hook dispatcher.
//!
//! One process-global callback (`install`) dispatches hook points to
//!   1. loop fuel (`scan.*`, thread-local, see fuel.rs),
//!   2. the handler installed on the *calling thread* (`set_thread_handler`): crash enumerator and
//!      OS-thread actors,
//!   3. the process-global handler (`set_global_handler`): actors that run as async tasks on
//!      runtime worker threads, identified by the point's ctx (stream id). Groups that use it must
//!      run one case at a time (GroupOpts.threads = 1).
//!
//! `Controller` owns the schedule: actors park at hook points, the controller releases one at a
//! time following a generated choice vector. A released actor that neither parks again nor
//! finishes within a short quantum is considered blocked on a lock held by a parked actor; the
//! controller then releases another one (this only changes which schedule is explored — verdicts
//! are always computed from the resulting log / frames, never from timing).

use std::cell::RefCell;
use std::collections::BTreeMap;
use std::sync::{Arc, Condvar, Mutex, Once, RwLock};
use std::time::{Duration, Instant};

type Handler = Arc<dyn Fn(&str, &str) + Send + Sync>;

thread_local! {
    static THREAD_HANDLER: RefCell<Option<Handler>> = const { RefCell::new(None) };
}
static GLOBAL_HANDLER: RwLock<Option<Handler>> = RwLock::new(None);

pub fn install() {
    static ONCE: Once = Once::new();
    ONCE.call_once(|| {
        rip_kernel::verif::set(Arc::new(|point: &str, ctx: &str| {
            if point.starts_with("scan.") {
                crate::fuel::on_point(point, ctx);
                return;
            }
            let th = THREAD_HANDLER.with(|h| h.borrow().clone());
            if let Some(h) = th {
                h(point, ctx);
                return;
            }
            let gh = GLOBAL_HANDLER.read().unwrap_or_else(|e| e.into_inner()).clone();
            if let Some(h) = gh {
                h(point, ctx);
            }
        }));
    });
}

pub fn set_thread_handler(h: Option<Handler>) {
    install();
    THREAD_HANDLER.with(|t| *t.borrow_mut() = h);
}

pub fn set_global_handler(h: Option<Handler>) {
    install();
    *GLOBAL_HANDLER.write().unwrap_or_else(|e| e.into_inner()) = h;
}

// ---------------------------------------------------------------------------------------------

#[derive(Debug, Clone, PartialEq)]
enum ActorState {
    /// parked at a point, waiting for release
    Parked(String),
    /// released and running (since)
    Running,
    Finished,
}

struct Inner {
    actors: Vec<ActorState>,
    /// release tokens: actor may proceed when its counter > 0
    tokens: Vec<u32>,
    /// trace of (actor, point) in release order
    trace: Vec<(usize, String)>,
    /// when set, every arrival passes straight through (drain mode)
    free_run: bool,
    ctx_map: BTreeMap<String, usize>,
    /// only these points park (None = all)
    park_points: Option<Vec<String>>,
}

pub struct Controller {
    inner: Mutex<Inner>,
    cv: Condvar,
    pub quantum: Duration,
}

impl Controller {
    pub fn new(actors: usize) -> Arc<Controller> {
        Arc::new(Controller {
            inner: Mutex::new(Inner {
                actors: vec![ActorState::Running; actors],
                tokens: vec![0; actors],
                trace: Vec::new(),
                free_run: false,
                ctx_map: BTreeMap::new(),
                park_points: None,
            }),
            cv: Condvar::new(),
            quantum: Duration::from_millis(4),
        })
    }

    pub fn only_points(&self, points: &[&str]) {
        self.inner.lock().unwrap().park_points = Some(points.iter().map(|s| s.to_string()).collect());
    }

    /// Async actors: points whose ctx starts with `prefix` belong to `actor`.
    pub fn map_ctx(&self, prefix: &str, actor: usize) {
        self.inner.lock().unwrap().ctx_map.insert(prefix.to_string(), actor);
    }

    fn actor_for_ctx(&self, ctx: &str) -> Option<usize> {
        let g = self.inner.lock().unwrap();
        g.ctx_map.iter().find(|(p, _)| ctx.starts_with(p.as_str())).map(|(_, a)| *a)
    }

    /// Called by an actor at a hook point (or at its virtual "start" point): parks until released.
    pub fn arrive(&self, actor: usize, point: &str) {
        let mut g = self.inner.lock().unwrap();
        if g.free_run {
            return;
        }
        if let Some(pp) = &g.park_points {
            if point != "start" && !pp.iter().any(|p| p == point) {
                return;
            }
        }
        if actor >= g.actors.len() {
            return;
        }
        g.actors[actor] = ActorState::Parked(point.to_string());
        self.cv.notify_all();
        while g.tokens[actor] == 0 && !g.free_run {
            g = self.cv.wait(g).unwrap();
        }
        if g.tokens[actor] > 0 {
            g.tokens[actor] -= 1;
        }
        g.actors[actor] = ActorState::Running;
        self.cv.notify_all();
    }

    pub fn finish(&self, actor: usize) {
        let mut g = self.inner.lock().unwrap();
        if actor < g.actors.len() {
            g.actors[actor] = ActorState::Finished;
        }
        self.cv.notify_all();
    }

    /// Handler for OS-thread actors: install on the actor's own thread.
    pub fn thread_handler(self: &Arc<Self>, actor: usize) -> Handler {
        let me = self.clone();
        Arc::new(move |point: &str, _ctx: &str| me.arrive(actor, point))
    }

    /// Handler for async actors identified by ctx; install as the global handler.
    pub fn ctx_handler(self: &Arc<Self>) -> Handler {
        let me = self.clone();
        Arc::new(move |point: &str, ctx: &str| {
            if let Some(a) = me.actor_for_ctx(ctx) {
                me.arrive(a, point);
            }
        })
    }

    /// Drive the schedule. `choices` are consumed one per release (monotone mapping onto the
    /// currently parked actors); when exhausted, parked actors are released round-robin.
    /// Returns false if `deadline` passed before every actor finished (⇒ inconclusive).
    pub fn run(&self, choices: &[u16], deadline: Duration) -> bool {
        let t0 = Instant::now();
        let mut next_choice = 0usize;
        let mut rr = 0usize;
        loop {
            // wait until nobody is Running, or the quantum passes
            let mut g = self.inner.lock().unwrap();
            let waited = Instant::now();
            loop {
                let any_running = g.actors.iter().any(|a| *a == ActorState::Running);
                if !any_running {
                    break;
                }
                let left = self.quantum.checked_sub(waited.elapsed());
                match left {
                    None => break,
                    Some(d) => {
                        let (ng, _) = self.cv.wait_timeout(g, d).unwrap();
                        g = ng;
                    }
                }
            }
            if g.actors.iter().all(|a| *a == ActorState::Finished) {
                return true;
            }
            let parked: Vec<usize> = g
                .actors
                .iter()
                .enumerate()
                .filter(|(i, a)| matches!(a, ActorState::Parked(_)) && g.tokens[*i] == 0)
                .map(|(i, _)| i)
                .collect();
            if parked.is_empty() {
                drop(g);
                if t0.elapsed() > deadline {
                    self.release_all();
                    return false;
                }
                std::thread::sleep(Duration::from_micros(300));
                continue;
            }
            let idx = if next_choice < choices.len() {
                let c = choices[next_choice];
                next_choice += 1;
                crate::engine::pick(c, parked.len())
            } else {
                rr += 1;
                rr % parked.len()
            };
            let a = parked[idx];
            let point = match &g.actors[a] {
                ActorState::Parked(p) => p.clone(),
                _ => String::new(),
            };
            g.trace.push((a, point));
            g.tokens[a] += 1;
            self.cv.notify_all();
            drop(g);
            if t0.elapsed() > deadline {
                self.release_all();
                return false;
            }
        }
    }

    /// Let everything run freely from now on.
    pub fn release_all(&self) {
        let mut g = self.inner.lock().unwrap();
        g.free_run = true;
        self.cv.notify_all();
    }

    pub fn trace(&self) -> Vec<(usize, String)> {
        self.inner.lock().unwrap().trace.clone()
    }

    /// Current parked point of an actor (None when running/finished).
    pub fn parked_at(&self, actor: usize) -> Option<String> {
        match &self.inner.lock().unwrap().actors[actor] {
            ActorState::Parked(p) => Some(p.clone()),
            _ => None,
        }
    }

    /// Wait until `actor` is parked at one of `points` (true) or finished / timeout (false).
    pub fn wait_parked(&self, actor: usize, timeout: Duration) -> Option<String> {
        let t0 = Instant::now();
        let mut g = self.inner.lock().unwrap();
        loop {
            match &g.actors[actor] {
                ActorState::Parked(p) => return Some(p.clone()),
                ActorState::Finished => return None,
                ActorState::Running => {}
            }
            let left = timeout.checked_sub(t0.elapsed())?;
            let (ng, _) = self.cv.wait_timeout(g, left).unwrap();
            g = ng;
        }
    }

    /// Release exactly one parked actor (manual stepping, used by drivers that script the
    /// schedule themselves instead of using `run`).
    pub fn step(&self, actor: usize) {
        let mut g = self.inner.lock().unwrap();
        let point = match &g.actors[actor] {
            ActorState::Parked(p) => p.clone(),
            _ => String::new(),
        };
        g.trace.push((actor, point));
        g.tokens[actor] += 1;
        self.cv.notify_all();
    }

    pub fn is_finished(&self, actor: usize) -> bool {
        self.inner.lock().unwrap().actors[actor] == ActorState::Finished
    }
}
