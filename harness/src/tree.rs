//! E6 sandbox-tree: full recursive snapshot of a directory (paths, types, bytes) and diffs.

use std::collections::BTreeMap;
use std::path::{Path, PathBuf};

#[derive(Debug, Clone, PartialEq, Eq)]
pub enum Node {
    Dir,
    File(Vec<u8>),
    Symlink(PathBuf),
    Other,
}

pub type Snapshot = BTreeMap<String, Node>;

/// Snapshot everything under `root` (keys are '/'-joined paths relative to root).
/// `skip` = relative path prefixes to leave out (e.g. ".rip").
pub fn snapshot(root: &Path, skip: &[&str]) -> Snapshot {
    let mut out = Snapshot::new();
    walk(root, root, skip, &mut out);
    out
}

fn walk(root: &Path, dir: &Path, skip: &[&str], out: &mut Snapshot) {
    let rd = match std::fs::read_dir(dir) {
        Ok(rd) => rd,
        Err(_) => return,
    };
    let mut entries: Vec<_> = rd.filter_map(|e| e.ok()).collect();
    entries.sort_by_key(|e| e.file_name());
    for e in entries {
        let path = e.path();
        let rel = path
            .strip_prefix(root)
            .unwrap_or(&path)
            .to_string_lossy()
            .replace('\\', "/");
        if skip.iter().any(|s| rel == *s || rel.starts_with(&format!("{s}/"))) {
            continue;
        }
        let meta = match std::fs::symlink_metadata(&path) {
            Ok(m) => m,
            Err(_) => continue,
        };
        if meta.file_type().is_symlink() {
            out.insert(rel, Node::Symlink(std::fs::read_link(&path).unwrap_or_default()));
        } else if meta.is_dir() {
            out.insert(rel.clone(), Node::Dir);
            walk(root, &path, skip, out);
        } else if meta.is_file() {
            out.insert(rel, Node::File(std::fs::read(&path).unwrap_or_default()));
        } else {
            out.insert(rel, Node::Other);
        }
    }
}

/// Files only (path → bytes).
pub fn files(s: &Snapshot) -> BTreeMap<String, Vec<u8>> {
    s.iter()
        .filter_map(|(k, v)| match v {
            Node::File(b) => Some((k.clone(), b.clone())),
            _ => None,
        })
        .collect()
}

/// Human-readable list of differences (bounded).
pub fn diff(a: &Snapshot, b: &Snapshot) -> Vec<String> {
    let mut out = Vec::new();
    for (k, va) in a {
        match b.get(k) {
            None => out.push(format!("removed: {k}")),
            Some(vb) if vb != va => out.push(format!("changed: {k} ({} -> {})", brief(va), brief(vb))),
            _ => {}
        }
    }
    for k in b.keys() {
        if !a.contains_key(k) {
            out.push(format!("added: {k} ({})", brief(&b[k])));
        }
    }
    out.truncate(20);
    out
}

fn brief(n: &Node) -> String {
    match n {
        Node::Dir => "dir".into(),
        Node::File(b) => {
            let s = String::from_utf8_lossy(&b[..b.len().min(60)]).to_string();
            format!("file[{}]{:?}", b.len(), s)
        }
        Node::Symlink(p) => format!("symlink->{}", p.display()),
        Node::Other => "other".into(),
    }
}

/// Write a map of relative path → bytes under root (creating parents).
pub fn materialize(root: &Path, files: &[(String, Vec<u8>)]) {
    for (rel, bytes) in files {
        let p = root.join(rel);
        if let Some(parent) = p.parent() {
            let _ = std::fs::create_dir_all(parent);
        }
        let _ = std::fs::write(&p, bytes);
    }
}
